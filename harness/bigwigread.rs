use super::*;
use crate::verif_support::*;
use crate::bbiread::{BBIFileInfo, BBIHeader};
use smallvec::SmallVec;

/// file + decompression layer under the reader: hands back the harness-built UNCOMPRESSED block
/// (compressed = uncompressed o trusted zlib round trip; libdeflate is C and is never encoded)
pub struct FakeRead {
    pub block0: Vec<u8>,
    pub block1: Vec<u8>,
    pub calls: usize,
}
impl BBIFileRead for FakeRead {
    type Reader = std::io::Cursor<Vec<u8>>;
    fn get_block_data(&mut self, _info: &BBIFileInfo, block: &Block) -> io::Result<Vec<u8>> {
        self.calls += 1;
        if block.offset == 0 { Ok(self.block0.clone()) } else { Ok(self.block1.clone()) }
    }
    fn blocks_for_cir_tree_node(&mut self, _e: Endianness, _o: u64, _c: u32, _s: u32, _en: u32) -> io::Result<(SmallVec<[u64; 4]>, SmallVec<[Block; 4]>)> {
        Err(io::Error::from(io::ErrorKind::Other))
    }
    fn raw_reader(&mut self) -> &mut Self::Reader {
        loop {}
    }
}

fn mk_info(big: bool) -> BBIFileInfo {
    BBIFileInfo {
        filetype: BBIFile::BigWig,
        header: BBIHeader {
            endianness: if big { Endianness::Big } else { Endianness::Little },
            version: 4,
            field_count: 0,
            defined_field_count: 0,
            zoom_levels: 0,
            chromosome_tree_offset: 0,
            full_data_offset: 0,
            full_index_offset: 0,
            full_index_tree_offset: None,
            auto_sql_offset: 0,
            total_summary_offset: 0,
            uncompress_buf_size: 0,
        },
        zoom_headers: Vec::new(),
        chrom_info: Vec::new(),
    }
}
fn p32(v: &mut Vec<u8>, big: bool, x: u32) {
    let b = if big { x.to_be_bytes() } else { x.to_le_bytes() };
    v.extend_from_slice(&b);
}
fn p16(v: &mut Vec<u8>, big: bool, x: u16) {
    let b = if big { x.to_be_bytes() } else { x.to_le_bytes() };
    v.extend_from_slice(&b);
}

// @harness c03_block_values_bedgraph
// @props C03 C10 C01
// @tier quick
// @kind core
// @timeout 2400
// @mem 24
// @functions bigwigread::get_block_values (section type 1 = bedGraph), through BigWigRead<FakeRead>
// @bounds one block with 2 stored values (independent encoder, byte order symbolic), coordinates / value bits / chromosome ids full width; arbitrary query [qs,qe) and query chromosome
// @stubs FakeRead implements the crate's public BBIFileRead trait (uncompressed block bytes); alloc::fmt::format -> empty; Vec::push -> push within capacity (asserted)
// @assumes stored values sorted and disjoint with start < end
// @cut zlib; index search (C05); sections of more than 2 items (item loop is uniform)
// @witness cover: a value clipped on both sides; a value filtered out; block of another chromosome
#[kani::proof]
#[kani::unwind(4)]
#[kani::stub(alloc::fmt::format, fake_format)]
#[kani::stub(alloc::vec::Vec::push, push_within_capacity)]
fn c03_block_values_bedgraph() {
    let big: bool = kani::any();
    let (bc, qc): (u32, u32) = (kani::any(), kani::any());
    let (s0, e0, s1, e1): (u32, u32, u32, u32) = (kani::any(), kani::any(), kani::any(), kani::any());
    let (v0, v1): (u32, u32) = (kani::any(), kani::any());
    kani::assume(s0 < e0 && e0 <= s1 && s1 < e1);
    let (qs, qe): (u32, u32) = (kani::any(), kani::any());
    kani::assume(qs <= qe);
    // independent encoder for a type-1 section
    let mut b: Vec<u8> = Vec::with_capacity(48);
    p32(&mut b, big, bc); p32(&mut b, big, s0); p32(&mut b, big, e1); p32(&mut b, big, 0); p32(&mut b, big, 0);
    b.push(1); b.push(0); p16(&mut b, big, 2);
    p32(&mut b, big, s0); p32(&mut b, big, e0); p32(&mut b, big, v0);
    p32(&mut b, big, s1); p32(&mut b, big, e1); p32(&mut b, big, v1);
    let read = FakeRead { block0: b, block1: Vec::new(), calls: 0 };
    let mut bw = BigWigRead { info: mk_info(big), read };
    let mut known: u64 = 0;
    let r = get_block_values(&mut bw, Block { offset: 0, size: 48 }, &mut known, qc, qs, qe);
    let (kind, n, a, bb) = match r {
        Ok(Some(mut it)) => {
            let a = it.next();
            let b2 = it.next();
            let c = it.next();
            let n = (a.is_some() as u8) + (b2.is_some() as u8) + (c.is_some() as u8);
            core::mem::forget(it);
            (1u8, n, a, b2)
        }
        Ok(None) => (2u8, 0, None, None),
        Err(e) => { core::mem::forget(e); (0u8, 0, None, None) }
    };
    assert!(kind != 0, "[ok] a well-formed block was rejected");
    if bc != qc {
        assert!(kind == 2, "[other_chrom] a block of another chromosome must be skipped");
    } else {
        assert!(kind == 1, "[same_chrom] a block of the queried chromosome was skipped");
        let w0 = e0 > qs && s0 < qe;
        let w1 = e1 > qs && s1 < qe;
        assert!(n == (w0 as u8) + (w1 as u8), "[count] number of returned values differs from the overlap spec");
        let clip = |s: u32, e: u32| (if s > qs { s } else { qs }, if e < qe { e } else { qe });
        if w0 {
            let (cs, ce) = clip(s0, e0);
            let ok = match a { Some(x) => x.start == cs && x.end == ce && x.value.to_bits() == v0, None => false };
            assert!(ok, "[first] first overlapping value not returned clipped / bit-identical");
            if w1 {
                let (cs, ce) = clip(s1, e1);
                let ok = match bb { Some(x) => x.start == cs && x.end == ce && x.value.to_bits() == v1, None => false };
                assert!(ok, "[second] second overlapping value not returned clipped / in order");
            }
        } else if w1 {
            let (cs, ce) = clip(s1, e1);
            let ok = match a { Some(x) => x.start == cs && x.end == ce && x.value.to_bits() == v1, None => false };
            assert!(ok, "[only_second] the only overlapping value not returned clipped");
        }
        let c1 = w0 & (qs > s0) & (qe < e0);
        kani::cover!(c1, "value clipped on both sides");
        let c2 = !w0 & w1;
        kani::cover!(c2, "first value filtered out");
    }
    let c3 = bc != qc;
    kani::cover!(c3, "block of another chromosome");
    core::mem::forget(bw);
}

fn block_values_varfixed(stype: u8) {
    let big: bool = kani::any();
    let bc: u32 = kani::any();
    let (cstart, step, span): (u32, u32, u32) = (kani::any(), kani::any(), kani::any());
    let (p0, p1): (u32, u32) = (kani::any(), kani::any());
    let (v0, v1): (u32, u32) = (kani::any(), kani::any());
    // well-formed: no coordinate overflow, items sorted and disjoint
    kani::assume(span >= 1 && span <= 1000 && step >= span && step <= 100000);
    kani::assume(cstart < (1u32 << 30) && p0 < (1u32 << 30) && p1 < (1u32 << 30));
    kani::assume(p0 + span <= p1);
    let (qs, qe): (u32, u32) = (kani::any(), kani::any());
    kani::assume(qs <= qe);
    let mut b: Vec<u8> = Vec::with_capacity(48);
    p32(&mut b, big, bc); p32(&mut b, big, cstart); p32(&mut b, big, 0); p32(&mut b, big, step); p32(&mut b, big, span);
    b.push(stype); b.push(0); p16(&mut b, big, 2);
    if stype == 2 {
        p32(&mut b, big, p0); p32(&mut b, big, v0);
        p32(&mut b, big, p1); p32(&mut b, big, v1);
    } else {
        p32(&mut b, big, v0);
        p32(&mut b, big, v1);
    }
    let blen = b.len() as u64;
    let read = FakeRead { block0: b, block1: Vec::new(), calls: 0 };
    let mut bw = BigWigRead { info: mk_info(big), read };
    let mut known: u64 = 0;
    let r = get_block_values(&mut bw, Block { offset: 0, size: blen }, &mut known, bc, qs, qe);
    let (ok, n, a, bb) = match r {
        Ok(Some(mut it)) => {
            let a = it.next();
            let b2 = it.next();
            let c = it.next();
            let n = (a.is_some() as u8) + (b2.is_some() as u8) + (c.is_some() as u8);
            core::mem::forget(it);
            (true, n, a, b2)
        }
        Ok(None) => (false, 0, None, None),
        Err(e) => { core::mem::forget(e); (false, 0, None, None) }
    };
    assert!(ok, "[ok] a well-formed block was rejected or skipped");
    // what the section encodes
    let (s0, s1) = if stype == 2 { (p0, p1) } else { (cstart, cstart + step) };
    let (e0, e1) = (s0 + span, s1 + span);
    let w0 = e0 > qs && s0 < qe;
    let w1 = e1 > qs && s1 < qe;
    assert!(n == (w0 as u8) + (w1 as u8), "[count] number of returned values differs from the overlap spec");
    let clip = |s: u32, e: u32| (if s > qs { s } else { qs }, if e < qe { e } else { qe });
    let first = if w0 { Some((clip(s0, e0), v0)) } else if w1 { Some((clip(s1, e1), v1)) } else { None };
    if let Some(((cs, ce), v)) = first {
        let okf = match a { Some(x) => x.start == cs && x.end == ce && x.value.to_bits() == v, None => false };
        assert!(okf, "[first] first overlapping item decoded wrongly (start/step/span arithmetic, clipping or value bits)");
    }
    if w0 && w1 {
        let (cs, ce) = clip(s1, e1);
        let oks = match bb { Some(x) => x.start == cs && x.end == ce && x.value.to_bits() == v1, None => false };
        assert!(oks, "[second] second overlapping item decoded wrongly");
    }
    kani::cover!(big, "big endian");
    let c2 = w0 & w1 & (step > span);
    kani::cover!(c2, "both items returned, step larger than span");
    core::mem::forget(bw);
}

// @harness c10_block_values_varstep
// @props C10 C03
// @tier quick
// @kind core
// @timeout 2400
// @mem 24
// @functions bigwigread::get_block_values (section type 2 = variable step), through BigWigRead<FakeRead>
// @bounds one block with 2 items (independent encoder, byte order symbolic); positions < 2^30, span 1..=1000, value bits full width; arbitrary query
// @stubs FakeRead (public BBIFileRead trait); alloc::fmt::format -> empty; Vec::push -> within capacity (asserted)
// @assumes well-formed section: items sorted, disjoint, no coordinate overflow
// @cut zlib; more than 2 items
// @witness cover: big endian; both items returned
#[kani::proof]
#[kani::unwind(4)]
#[kani::stub(alloc::fmt::format, fake_format)]
#[kani::stub(alloc::vec::Vec::push, push_within_capacity)]
fn c10_block_values_varstep() {
    block_values_varfixed(2);
}

// @harness c10_block_values_fixedstep
// @props C10 C03
// @tier quick
// @kind core
// @timeout 2400
// @mem 24
// @functions bigwigread::get_block_values (section type 3 = fixed step), through BigWigRead<FakeRead>
// @bounds one block with 2 items (independent encoder, byte order symbolic); start < 2^30, span 1..=1000 <= step <= 100000, value bits full width; arbitrary query
// @stubs FakeRead (public BBIFileRead trait); alloc::fmt::format -> empty; Vec::push -> within capacity (asserted)
// @assumes well-formed section: span <= step, no coordinate overflow
// @cut zlib; more than 2 items
// @witness cover: big endian; both items returned with step > span
#[kani::proof]
#[kani::unwind(4)]
#[kani::stub(alloc::fmt::format, fake_format)]
#[kani::stub(alloc::vec::Vec::push, push_within_capacity)]
fn c10_block_values_fixedstep() {
    block_values_varfixed(3);
}
