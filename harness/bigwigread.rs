use super::*;
use crate::verif_support::*;
use crate::bbiread::{BBIFileInfo, BBIHeader};
use smallvec::SmallVec;

/// file + decompression layer under the reader: hands back the harness-built UNCOMPRESSED block
/// (compressed = uncompressed o trusted zlib round trip; libdeflate is C and is never encoded)
pub struct FakeRead {
    pub block0: Vec<u8>,
    pub block1: Vec<u8>,
    pub calls: usize,
}
impl BBIFileRead for FakeRead {
    type Reader = std::io::Cursor<Vec<u8>>;
    fn get_block_data(&mut self, _info: &BBIFileInfo, block: &Block) -> io::Result<Vec<u8>> {
        self.calls += 1;
        if block.offset == 0 { Ok(self.block0.clone()) } else { Ok(self.block1.clone()) }
    }
    fn blocks_for_cir_tree_node(&mut self, _e: Endianness, _o: u64, _c: u32, _s: u32, _en: u32) -> io::Result<(SmallVec<[u64; 4]>, SmallVec<[Block; 4]>)> {
        Err(io::Error::from(io::ErrorKind::Other))
    }
    fn raw_reader(&mut self) -> &mut Self::Reader {
        loop {}
    }
}

fn mk_info(big: bool) -> BBIFileInfo {
    BBIFileInfo {
        filetype: BBIFile::BigWig,
        header: BBIHeader {
            endianness: if big { Endianness::Big } else { Endianness::Little },
            version: 4,
            field_count: 0,
            defined_field_count: 0,
            zoom_levels: 0,
            chromosome_tree_offset: 0,
            full_data_offset: 0,
            full_index_offset: 0,
            full_index_tree_offset: None,
            auto_sql_offset: 0,
            total_summary_offset: 0,
            uncompress_buf_size: 0,
        },
        zoom_headers: Vec::new(),
        chrom_info: Vec::new(),
    }
}
fn p32(v: &mut Vec<u8>, big: bool, x: u32) {
    let b = if big { x.to_be_bytes() } else { x.to_le_bytes() };
    v.extend_from_slice(&b);
}
fn p16(v: &mut Vec<u8>, big: bool, x: u16) {
    let b = if big { x.to_be_bytes() } else { x.to_le_bytes() };
    v.extend_from_slice(&b);
}

// @harness c03_block_values_bedgraph
// @props C03 C10 C01
// @tier quick
// @kind core
// @timeout 2400
// @mem 24
// @functions bigwigread::get_block_values (section type 1 = bedGraph), through BigWigRead<FakeRead>
// @bounds one block with 2 stored values (independent encoder, byte order symbolic), coordinates / value bits / chromosome ids full width; arbitrary query [qs,qe) and query chromosome
// @stubs FakeRead implements the crate's public BBIFileRead trait (uncompressed block bytes); alloc::fmt::format -> empty; Vec::push -> push within capacity (asserted)
// @assumes stored values sorted and disjoint with start < end
// @cut zlib; index search (C05); sections of more than 2 items (item loop is uniform)
// @witness cover: a value clipped on both sides; a value filtered out; block of another chromosome
#[kani::proof]
#[kani::unwind(4)]
#[kani::stub(alloc::fmt::format, fake_format)]
#[kani::stub(alloc::vec::Vec::push, push_within_capacity)]
fn c03_block_values_bedgraph() {
    let big: bool = kani::any();
    let (bc, qc): (u32, u32) = (kani::any(), kani::any());
    let (s0, e0, s1, e1): (u32, u32, u32, u32) = (kani::any(), kani::any(), kani::any(), kani::any());
    let (v0, v1): (u32, u32) = (kani::any(), kani::any());
    kani::assume(s0 < e0 && e0 <= s1 && s1 < e1);
    let (qs, qe): (u32, u32) = (kani::any(), kani::any());
    kani::assume(qs <= qe);
    // independent encoder for a type-1 section
    let mut b: Vec<u8> = Vec::with_capacity(48);
    p32(&mut b, big, bc); p32(&mut b, big, s0); p32(&mut b, big, e1); p32(&mut b, big, 0); p32(&mut b, big, 0);
    b.push(1); b.push(0); p16(&mut b, big, 2);
    p32(&mut b, big, s0); p32(&mut b, big, e0); p32(&mut b, big, v0);
    p32(&mut b, big, s1); p32(&mut b, big, e1); p32(&mut b, big, v1);
    let read = FakeRead { block0: b, block1: Vec::new(), calls: 0 };
    let mut bw = BigWigRead { info: mk_info(big), read };
    let mut known: u64 = 0;
    let r = get_block_values(&mut bw, Block { offset: 0, size: 48 }, &mut known, qc, qs, qe);
    let (kind, n, a, bb) = match r {
        Ok(Some(mut it)) => {
            let a = it.next();
            let b2 = it.next();
            let c = it.next();
            let n = (a.is_some() as u8) + (b2.is_some() as u8) + (c.is_some() as u8);
            core::mem::forget(it);
            (1u8, n, a, b2)
        }
        Ok(None) => (2u8, 0, None, None),
        Err(e) => { core::mem::forget(e); (0u8, 0, None, None) }
    };
    assert!(kind != 0, "[ok] a well-formed block was rejected");
    if bc != qc {
        assert!(kind == 2, "[other_chrom] a block of another chromosome must be skipped");
    } else {
        assert!(kind == 1, "[same_chrom] a block of the queried chromosome was skipped");
        let w0 = e0 > qs && s0 < qe;
        let w1 = e1 > qs && s1 < qe;
        assert!(n == (w0 as u8) + (w1 as u8), "[count] number of returned values differs from the overlap spec");
        let clip = |s: u32, e: u32| (if s > qs { s } else { qs }, if e < qe { e } else { qe });
        if w0 {
            let (cs, ce) = clip(s0, e0);
            let ok = match a { Some(x) => x.start == cs && x.end == ce && x.value.to_bits() == v0, None => false };
            assert!(ok, "[first] first overlapping value not returned clipped / bit-identical");
            if w1 {
                let (cs, ce) = clip(s1, e1);
                let ok = match bb { Some(x) => x.start == cs && x.end == ce && x.value.to_bits() == v1, None => false };
                assert!(ok, "[second] second overlapping value not returned clipped / in order");
            }
        } else if w1 {
            let (cs, ce) = clip(s1, e1);
            let ok = match a { Some(x) => x.start == cs && x.end == ce && x.value.to_bits() == v1, None => false };
            assert!(ok, "[only_second] the only overlapping value not returned clipped");
        }
        let c1 = w0 & (qs > s0) & (qe < e0);
        kani::cover!(c1, "value clipped on both sides");
        let c2 = !w0 & w1;
        kani::cover!(c2, "first value filtered out");
    }
    let c3 = bc != qc;
    kani::cover!(c3, "block of another chromosome");
    core::mem::forget(bw);
}

fn block_values_varfixed(stype: u8) {
    let big: bool = kani::any();
    let bc: u32 = kani::any();
    let (cstart, step, span): (u32, u32, u32) = (kani::any(), kani::any(), kani::any());
    let (p0, p1): (u32, u32) = (kani::any(), kani::any());
    let (v0, v1): (u32, u32) = (kani::any(), kani::any());
    // well-formed: no coordinate overflow, items sorted and disjoint
    kani::assume(span >= 1 && span <= 1000 && step >= span && step <= 100000);
    kani::assume(cstart < (1u32 << 30) && p0 < (1u32 << 30) && p1 < (1u32 << 30));
    kani::assume(p0 + span <= p1);
    let (qs, qe): (u32, u32) = (kani::any(), kani::any());
    kani::assume(qs <= qe);
    let mut b: Vec<u8> = Vec::with_capacity(48);
    p32(&mut b, big, bc); p32(&mut b, big, cstart); p32(&mut b, big, 0); p32(&mut b, big, step); p32(&mut b, big, span);
    b.push(stype); b.push(0); p16(&mut b, big, 2);
    if stype == 2 {
        p32(&mut b, big, p0); p32(&mut b, big, v0);
        p32(&mut b, big, p1); p32(&mut b, big, v1);
    } else {
        p32(&mut b, big, v0);
        p32(&mut b, big, v1);
    }
    let blen = b.len() as u64;
    let read = FakeRead { block0: b, block1: Vec::new(), calls: 0 };
    let mut bw = BigWigRead { info: mk_info(big), read };
    let mut known: u64 = 0;
    let r = get_block_values(&mut bw, Block { offset: 0, size: blen }, &mut known, bc, qs, qe);
    let (ok, n, a, bb) = match r {
        Ok(Some(mut it)) => {
            let a = it.next();
            let b2 = it.next();
            let c = it.next();
            let n = (a.is_some() as u8) + (b2.is_some() as u8) + (c.is_some() as u8);
            core::mem::forget(it);
            (true, n, a, b2)
        }
        Ok(None) => (false, 0, None, None),
        Err(e) => { core::mem::forget(e); (false, 0, None, None) }
    };
    assert!(ok, "[ok] a well-formed block was rejected or skipped");
    // what the section encodes
    let (s0, s1) = if stype == 2 { (p0, p1) } else { (cstart, cstart + step) };
    let (e0, e1) = (s0 + span, s1 + span);
    let w0 = e0 > qs && s0 < qe;
    let w1 = e1 > qs && s1 < qe;
    assert!(n == (w0 as u8) + (w1 as u8), "[count] number of returned values differs from the overlap spec");
    let clip = |s: u32, e: u32| (if s > qs { s } else { qs }, if e < qe { e } else { qe });
    let first = if w0 { Some((clip(s0, e0), v0)) } else if w1 { Some((clip(s1, e1), v1)) } else { None };
    if let Some(((cs, ce), v)) = first {
        let okf = match a { Some(x) => x.start == cs && x.end == ce && x.value.to_bits() == v, None => false };
        assert!(okf, "[first] first overlapping item decoded wrongly (start/step/span arithmetic, clipping or value bits)");
    }
    if w0 && w1 {
        let (cs, ce) = clip(s1, e1);
        let oks = match bb { Some(x) => x.start == cs && x.end == ce && x.value.to_bits() == v1, None => false };
        assert!(oks, "[second] second overlapping item decoded wrongly");
    }
    kani::cover!(big, "big endian");
    let c2 = w0 & w1 & (step > span);
    kani::cover!(c2, "both items returned, step larger than span");
    core::mem::forget(bw);
}

// @harness c10_block_values_varstep
// @props C10 C03
// @tier quick
// @kind core
// @timeout 2400
// @mem 24
// @functions bigwigread::get_block_values (section type 2 = variable step), through BigWigRead<FakeRead>
// @bounds one block with 2 items (independent encoder, byte order symbolic); positions < 2^30, span 1..=1000, value bits full width; arbitrary query
// @stubs FakeRead (public BBIFileRead trait); alloc::fmt::format -> empty; Vec::push -> within capacity (asserted)
// @assumes well-formed section: items sorted, disjoint, no coordinate overflow
// @cut zlib; more than 2 items
// @witness cover: big endian; both items returned
#[kani::proof]
#[kani::unwind(4)]
#[kani::stub(alloc::fmt::format, fake_format)]
#[kani::stub(alloc::vec::Vec::push, push_within_capacity)]
fn c10_block_values_varstep() {
    block_values_varfixed(2);
}

// @harness c10_block_values_fixedstep
// @props C10 C03
// @tier quick
// @kind core
// @timeout 2400
// @mem 24
// @functions bigwigread::get_block_values (section type 3 = fixed step), through BigWigRead<FakeRead>
// @bounds one block with 2 items (independent encoder, byte order symbolic); start < 2^30, span 1..=1000 <= step <= 100000, value bits full width; arbitrary query
// @stubs FakeRead (public BBIFileRead trait); alloc::fmt::format -> empty; Vec::push -> within capacity (asserted)
// @assumes well-formed section: span <= step, no coordinate overflow
// @cut zlib; more than 2 items
// @witness cover: big endian; both items returned with step > span
#[kani::proof]
#[kani::unwind(4)]
#[kani::stub(alloc::fmt::format, fake_format)]
#[kani::stub(alloc::vec::Vec::push, push_within_capacity)]
fn c10_block_values_fixedstep() {
    block_values_varfixed(3);
}

// @harness c03_query_end_to_end
// @props C03 C10
// @tier thorough
// @kind core
// @timeout 2400
// @mem 24
// @rss 12
// @fs 16384
// @sub src/bbi/bbiread.rs ::: use bytes::{Buf, BytesMut}; ::: use crate::verif_support::bbuf::BytesMut; ||| src/bbi/bigwigread.rs ::: use bytes::{Buf, BytesMut}; ::: use crate::verif_support::bbuf::BytesMut;
// @functions the body of BigWigRead::get_interval, statement by statement (the iterator is built in place, see the comment in the harness): BBIFileInfo::chrom_id, full_data_cir_tree + read_cir_tree_header, search_cir_tree / search_cir_tree_inner / CirTreeBlockSearchIter, read_node, nodes_overlapping, read_block_data (uncompressed), bigwigread::get_block_values (bedGraph section), BigWigIntervalIter::next - over an in-memory file (ScriptedFile, see its comment: requested node offset and block location are asserted against the file's layout); bytes::BytesMut replaced by the model verif_support::bbuf in both files
// @bounds an independently encoded little-endian bigWig fragment: index header, one leaf node with one block whose recorded span is all of chromosome 0 (concrete, so that fetching the block is decided during symbolic execution), one bedGraph section with 3 values (1.5, -2.0, 0.25) whose coordinates are symbolic (full width); arbitrary query [qs, qe) on that chromosome
// @stubs alloc::fmt::format -> empty; SmallVec::push -> within inline capacity (asserted); Vec::reserve -> first growth of an empty result vector allocates 4 slots (asserted otherwise)
// @assumes stored values sorted and disjoint with start < end
// @cut zlib (uncompress_buf_size = 0); several blocks / index levels (c05_search_2level_*); other section types (c10_block_values_*)
// @witness cover: all three values returned; the middle value only, clipped on both sides; nothing returned
#[kani::proof]
#[kani::unwind(12)]
#[kani::stub(alloc::fmt::format, crate::verif_support::fake_format)]
#[kani::stub(alloc::vec::Vec::reserve, crate::verif_support::reserve_first_four)]
#[kani::stub(smallvec::SmallVec::push, crate::verif_support::smallvec_push_inline)]
fn c03_query_end_to_end() {
    let s: [u32; 3] = [kani::any(), kani::any(), kani::any()];
    let e: [u32; 3] = [kani::any(), kani::any(), kani::any()];
    kani::assume(s[0] < e[0] && e[0] <= s[1] && s[1] < e[1] && e[1] <= s[2] && s[2] < e[2]);
    let (qs, qe): (u32, u32) = (kani::any(), kani::any());
    kani::assume(qs < qe);
    let vals: [f32; 3] = [1.5, -2.0, 0.25];
    let mut bw = crate::bbi::bbiread::verif_kani_bbiread::one_block_bigwig(s, e);
    let mut out: [(u32, u32, u32); 4] = [(0, 0, 0); 4];
    let mut n = 0usize;
    let mut failed = false;
    // BigWigRead::get_interval's three statements, with the iterator built in place: returned through
    // `Result<BigWigIntervalIter, _>` (a niche-encoded enum = nested C unions for CBMC) the iterator's reference
    // to the reader becomes an opaque pointer and every later read through it is symbolic
    let chrom = bw.info.chrom_id("a");
    let cir_tree = bw.full_data_cir_tree();
    let pre_ok = chrom.is_ok() && cir_tree.is_ok();
    assert!(pre_ok, "[ok] chromosome lookup / index header read failed on a well-formed file");
    let chrom = match chrom { Ok(c) => c, Err(er) => { core::mem::forget(er); 0 } };
    let blocks = match cir_tree {
        Ok(ct) => search_cir_tree(&bw.info, &mut bw.read, ct, "a", qs, qe),
        Err(er) => { core::mem::forget(er); return; }
    };
    match blocks {
        Ok(blocks) => {
            // the block list comes back through `Result<Vec<Block>, _>` (opaque pointer, see above): it is checked
            // against the index (one block, the section at 84..144) and re-built as a plain local Vec
            let found_ok = blocks.len() == 1 && blocks[0].offset == 84 && blocks[0].size == 60;
            core::mem::forget(blocks);
            assert!(found_ok, "[search] the index search did not return exactly the block whose leaf item spans the queried chromosome");
            let mut mine: Vec<Block> = Vec::with_capacity(1);
            mine.push(Block { offset: 84, size: 60 });
            let mut it = BigWigIntervalIter { r: std::marker::PhantomData, bigwig: &mut bw, known_offset: 0, blocks: mine.into_iter(), vals: None, chrom, start: qs, end: qe };
            let mut k = 0;
            while k < 4 {
                match it.next() {
                    Some(Ok(v)) => { out[n] = (v.start, v.end, v.value.to_bits()); n += 1; }
                    Some(Err(er)) => { core::mem::forget(er); failed = true; }
                    None => {}
                }
                k += 1;
            }
            core::mem::forget(it);
        }
        Err(er) => { core::mem::forget(er); failed = true; }
    }
    assert!(!failed, "[ok] querying a well-formed file failed");
    // linear-scan oracle
    let mut m = 0usize;
    let mut i = 0;
    while i < 3 {
        if e[i] > qs && s[i] < qe {
            let cs = if s[i] > qs { s[i] } else { qs };
            let ce = if e[i] < qe { e[i] } else { qe };
            assert!(m < n && out[m].0 == cs && out[m].1 == ce && out[m].2 == vals[i].to_bits(), "[value] an overlapping stored value is missing, unclipped, out of order or has a different value");
            m += 1;
        }
        i += 1;
    }
    assert!(n == m, "[count] the query returned values that do not overlap it (or duplicates)");
    let c1 = n == 3;
    kani::cover!(c1, "all three values returned");
    let c2 = (n == 1) & (qs > s[1]) & (qe < e[1]);
    kani::cover!(c2, "the middle value only, clipped on both sides");
    let c3 = n == 0;
    kani::cover!(c3, "nothing returned");
    core::mem::forget(bw);
}
