// Shared harness support (compiled only under cfg(kani), inside the scratch copy of bigtools).
// Stubs listed here are part of every claim that uses them (see DESIGN.md 1.3).

/// replaces alloc::fmt::format: the *text* of error messages is never part of a property
pub fn fake_format(_args: core::fmt::Arguments<'_>) -> alloc::string::String {
    alloc::string::String::new()
}
