// Shared harness support (compiled only under cfg(kani), inside the scratch copy of bigtools).
// Every stub here is part of the claim of each harness that names it (DESIGN.md 1.3).
//
// Two build modes share this file:
//   * `cargo kani`            : cfg(kani), stubs applied by kani-compiler, environment = logs below
//   * `cargo kani playback`   : cfg(kani) + cfg(verif_replay): NO stubs are applied (plain rustc), so the
//                               environment is the real thing: a real tokio runtime and a real channel.
use core::future::Future;
use core::pin::pin;
use core::task::{Context, Poll, Waker};
use std::io;

/// replaces alloc::fmt::format: the *text* of error messages is never part of a property
pub fn fake_format(_args: core::fmt::Arguments<'_>) -> alloc::string::String {
    alloc::string::String::new()
}

/// replaces tempfile::tempfile (any reachable call to the real one makes kani-compiler 0.68 panic):
/// temp-file creation fails; harnesses that use it exercise in-memory staging only
pub fn fake_tempfile_err() -> io::Result<std::fs::File> {
    Err(io::Error::from(io::ErrorKind::Other))
}

/// replaces Vec::push where a harness guarantees (and this stub ASSERTS) that the vector never has to
/// grow: removes the reallocation path, whose memcpy of a symbolic length is what makes a conditional
/// push expensive for the solver. A push beyond the capacity is reported as a failed check.
pub fn push_within_capacity<T, A: core::alloc::Allocator>(v: &mut Vec<T, A>, x: T) {
    let l = v.len();
    kani::assert(l < v.capacity(), "[cap] Vec::push beyond the capacity reserved by the harness/code");
    kani::assume(l < v.capacity());
    unsafe {
        core::ptr::write(v.as_mut_ptr().add(l), x);
        v.set_len(l + 1);
    }
}

/// companion of push_within_capacity for Vec::reserve (reached from extend_from_slice / io::Write for Vec)
pub fn reserve_within_capacity<T, A: core::alloc::Allocator>(v: &mut Vec<T, A>, additional: usize) {
    let room = v.capacity() - v.len();
    kani::assert(room >= additional, "[cap] Vec::reserve beyond the capacity reserved by the code/harness");
    kani::assume(room >= additional);
}

/// Vec::reserve for result vectors that start EMPTY and receive a symbolic number (<= 4) of elements
/// (`blocks.extend(..)` in the index search): the first growth allocates a fixed capacity of 4 instead of the
/// amortised, symbolic-size allocation; any other growth is a failed check.
pub fn reserve_first_four<T, A: core::alloc::Allocator>(v: &mut Vec<T, A>, additional: usize) {
    if v.capacity() - v.len() >= additional {
        return;
    }
    kani::assert(v.capacity() == 0 && v.len() == 0 && additional <= 4, "[cap] Vec::reserve outside this harness's bounds (growth of a non-empty Vec or by more than 4)");
    kani::assume(v.capacity() == 0 && v.len() == 0 && additional <= 4);
    unsafe {
        let p = std::alloc::alloc(std::alloc::Layout::array::<T>(4).unwrap()) as *mut T;
        let a = core::ptr::read(v.allocator());
        core::ptr::write(v, Vec::from_raw_parts_in(p, 0, 4, a));
    }
}

/// replaces std::io::copy in harnesses that exercise in-memory staging only: the temp-file arms of
/// TempFileBuffer are ASSERTED unreachable there (a reachable call is a failed check), which removes
/// the 8 KiB stack-buffer copy loop from the symbolic execution
pub fn io_copy_unreachable<R: ?Sized + io::Read, W: ?Sized + io::Write>(_r: &mut R, _w: &mut W) -> io::Result<u64> {
    kani::assert(false, "[inmemory] io::copy reached although the harness stages in memory");
    Err(io::Error::from(io::ErrorKind::Other))
}

/// replaces RandomState::new (std HashMap hashing keys): fixed keys, so that hashing of the concrete
/// chromosome names stays concrete. The written bytes must not depend on the keys (ids decide the order);
/// that independence is a stated assumption of the harnesses that use this stub.
pub fn fixed_random_state() -> std::collections::hash_map::RandomState {
    let keys: [u64; 2] = [0x0123_4567_89ab_cdef, 0x0fed_cba9_8765_4321];
    kani::assert(core::mem::size_of::<std::collections::hash_map::RandomState>() == 16, "[env] RandomState layout");
    unsafe { core::mem::transmute_copy::<[u64; 2], std::collections::hash_map::RandomState>(&keys) }
}

/// replaces smallvec::SmallVec::push where the harness guarantees (and this stub ASSERTS) that the inline
/// capacity suffices: removes the spill-to-heap path, which is what makes a SmallVec with a symbolic length
/// exceed memory (three conditional pushes > 40 GB)
pub fn smallvec_push_inline<A: smallvec::Array>(v: &mut smallvec::SmallVec<A>, x: A::Item) {
    let l = v.len();
    kani::assert(l < A::size(), "[cap] SmallVec::push beyond its inline capacity");
    kani::assume(l < A::size());
    unsafe {
        core::ptr::write(v.as_mut_ptr().add(l), x);
        v.set_len(l + 1);
    }
}

/// stub for String::from_utf8 in reader harnesses whose rest fields are ASCII by construction: skips the
/// validation loops (which fork per byte once the bytes have gone through a memcpy)
pub fn from_utf8_trusting(v: Vec<u8>) -> Result<String, std::string::FromUtf8Error> {
    Ok(unsafe { String::from_utf8_unchecked(v) })
}

/// same for core::str::from_utf8 (chromosome names in read_chrom_tree_block): std's validation takes an
/// alignment-dependent fast path (`align_offset`), which is nondeterministic under CBMC and forks per byte
pub fn str_from_utf8_trusting(v: &[u8]) -> Result<&str, core::str::Utf8Error> {
    Ok(unsafe { core::str::from_utf8_unchecked(v) })
}

/// stub for core::ptr::copy_nonoverlapping in reader harnesses: a byte loop instead of CBMC's memcpy
/// (array_replace), so that constants copied by `try_into`, `to_vec`, `extend_from_slice` ... stay constants
/// during symbolic execution. Same contract (non-overlapping, valid for count elements).
pub unsafe fn copy_bytes_loop<T>(src: *const T, dst: *mut T, count: usize) {
    let n = count * core::mem::size_of::<T>();
    let s = src as *const u8;
    let d = dst as *mut u8;
    let mut i = 0;
    while i < n {
        *d.add(i) = *s.add(i);
        i += 1;
    }
}

/// stub for alloc::alloc::alloc_zeroed (`vec![0u8; n]` in the index readers): allocate, then zero byte by
/// byte. CBMC's calloc initialises the object with one whole-array assignment, after which array-typed reads
/// of it (`try_into::<[u8; 24]>`) are no longer constant-propagated.
pub unsafe fn alloc_zeroed_loop(layout: std::alloc::Layout) -> *mut u8 {
    let p = std::alloc::alloc(layout);
    let mut i = 0;
    while i < layout.size() {
        *p.add(i) = 0;
        i += 1;
    }
    p
}

/// stub for core::ptr::copy_nonoverlapping where the copied elements are small structs of references (the
/// insertion sort inside `sort_by_key` in write_chrom_tree): element-wise typed copies instead of CBMC's memcpy,
/// so that the ids the sort compares stay constants. Same contract.
pub unsafe fn copy_typed_loop<T>(src: *const T, dst: *mut T, count: usize) {
    let mut i = 0;
    while i < count {
        core::ptr::write(dst.add(i), core::ptr::read(src.add(i)));
        i += 1;
    }
}

/// poll a future once with a no-op waker (the bigtools encode/process futures have no real
/// suspension point once the channel is always ready)
pub fn poll_once<F: Future>(f: F) -> Option<F::Output> {
    let mut f = pin!(f);
    let mut cx = Context::from_waker(Waker::noop());
    match f.as_mut().poll(&mut cx) {
        Poll::Ready(v) => Some(v),
        Poll::Pending => None,
    }
}

/// like poll_once under Kani; in the native replay the future is driven to completion on the real
/// executor (real task handles complete on the real runtime)
pub fn drive<F: Future>(f: F) -> Option<F::Output> {
    #[cfg(not(verif_replay))]
    {
        poll_once(f)
    }
    #[cfg(verif_replay)]
    {
        Some(futures::executor::block_on(f))
    }
}

#[cfg(feature = "write")]
pub mod env {
    use super::*;
    use crate::bbiwrite::SectionData;
    use futures::channel::mpsc::{channel, Receiver, SendError, Sender};
    use std::mem::MaybeUninit;
    use tokio::runtime::Handle;
    use tokio::task::JoinHandle;

    pub type Out = io::Result<(SectionData, usize)>;
    pub type Msg = JoinHandle<Out>;

    // ---- kani mode: log of outputs of "spawned" tasks, in spawn order == send order -------------
    pub const LOG_CAP: usize = 8;
    // NOTE: never all-zero initial bytes in a mutable static (kani-compiler 0.68 may materialise an
    // alloc-backed constant such as `Ok(())` by reading from a static with identical bytes): counters
    // start at distinctive bases, slots hold distinctive patterns
    const SPAWNED_BASE: usize = 0x5EED_0000_0000_0100;
    const SENT_BASE: usize = 0x5EED_0000_0000_0200;
    pub static mut SPAWNED_RAW: usize = SPAWNED_BASE;
    pub static mut SENT_RAW: usize = SENT_BASE;
    pub static mut SLOTS: [usize; LOG_CAP] = [0x51075_0001, 0x51075_0002, 0x51075_0003, 0x51075_0004, 0x51075_0005, 0x51075_0006, 0x51075_0007, 0x51075_0008];
    fn spawned_n() -> usize { unsafe { SPAWNED_RAW - SPAWNED_BASE } }
    fn sent_n() -> usize { unsafe { SENT_RAW - SENT_BASE } }

    /// stub for tokio::runtime::Handle::spawn: run the future to completion NOW (the bigtools encode
    /// tasks never suspend), box its output, and hand back the box pointer disguised as a JoinHandle.
    /// The token is never polled or dropped as a JoinHandle (harnesses mem::forget / reclaim it).
    pub fn fake_spawn<F>(_h: &Handle, future: F) -> JoinHandle<F::Output>
    where
        F: Future + Send + 'static,
        F::Output: Send + 'static,
    {
        let out = match poll_once(future) {
            Some(o) => o,
            None => {
                // contract of the stub: spawned futures complete without suspending
                kani::assert(false, "[env] spawned future suspended");
                loop {}
            }
        };
        let p: *mut F::Output = Box::into_raw(Box::new(out));
        unsafe {
            SPAWNED_RAW += 1;
            core::mem::transmute_copy::<*mut F::Output, JoinHandle<F::Output>>(&p)
        }
    }

    /// alternative stub for Handle::spawn used where the harness asserts that NO task is spawned: the
    /// future is discarded unexecuted and only counted (SPAWNED); the token must never be consumed.
    pub fn fake_spawn_skip<F>(_h: &Handle, future: F) -> JoinHandle<F::Output>
    where
        F: Future + Send + 'static,
        F::Output: Send + 'static,
    {
        core::mem::forget(future);
        unsafe {
            SPAWNED_RAW += 1;
            let p: usize = 8;
            core::mem::transmute_copy::<usize, JoinHandle<F::Output>>(&p)
        }
    }

    /// stub for Sender::poll_ready: the bounded channel is always ready (back-pressure is outside the claim)
    pub fn fake_poll_ready<T>(_s: &mut Sender<T>, _cx: &mut Context<'_>) -> Poll<Result<(), SendError>> {
        Poll::Ready(Ok(()))
    }

    /// stub for Sender::start_send: FIFO into the harness log
    pub fn fake_start_send<T>(_s: &mut Sender<T>, msg: T) -> Result<(), SendError> {
        unsafe {
            kani::assert(sent_n() < LOG_CAP, "[env] log capacity");
            // T is always Msg (a pointer-sized token) in these harnesses
            kani::assert(core::mem::size_of::<T>() == core::mem::size_of::<usize>(), "[env] token size");
            SLOTS[sent_n()] = core::mem::transmute_copy::<T, usize>(&msg);
            SENT_RAW += 1;
        }
        core::mem::forget(msg);
        Ok(())
    }

    /// target of the source-level substitution `X.send(handle).await.expect(..)` -> `direct_send(&mut X, handle)`
    /// (used by harnesses with `@sub`): same contract as the poll_ready/start_send stubs, without the
    /// SinkExt::send future and its await point inside the caller's loop
    pub fn direct_send<T>(s: &mut Sender<T>, msg: T) {
        let _ = fake_start_send(s, msg);
    }

    /// target of the source substitution `H.await.unwrap()` -> `join_now(H)` (harness c14_write_data_fault):
    /// the result of an already finished task
    pub fn join_now(h: Msg) -> Out {
        #[cfg(not(verif_replay))]
        unsafe {
            let p: *mut Out = core::mem::transmute_copy::<Msg, *mut Out>(&h);
            core::mem::forget(h);
            *Box::from_raw(p)
        }
        #[cfg(verif_replay)]
        {
            futures::executor::block_on(h).unwrap()
        }
    }

    /// target of the source substitution `frx.next().await` -> `recv_now(&mut frx)` (harness
    /// c14_write_data_fault): the receiving end of the section channel. Under Kani the queued task handles
    /// come from a two-slot queue filled by `queue_for_recv` (the channel is closed once it is empty);
    /// natively it is the real receiver.
    pub static mut RECV_Q: [usize; 2] = [0x4EC7_0000_0000_0001, 0x4EC7_0000_0000_0002];
    pub const RECV_BASE: usize = 0x4EC7_0000_0000_0100;
    pub static mut RECV_HEAD: usize = RECV_BASE;
    pub static mut RECV_TAIL: usize = RECV_BASE + 0x10;
    pub fn queue_for_recv(tx: &mut Sender<Msg>, msg: Msg) {
        #[cfg(not(verif_replay))]
        unsafe {
            let _ = tx;
            let n = RECV_TAIL - (RECV_BASE + 0x10);
            kani::assert(n < 2, "[env] receive queue capacity");
            RECV_Q[n] = core::mem::transmute_copy::<Msg, usize>(&msg);
            core::mem::forget(msg);
            RECV_TAIL += 1;
        }
        #[cfg(verif_replay)]
        {
            tx.try_send(msg).expect("queue");
        }
    }
    pub fn recv_now(rx: &mut Receiver<Msg>) -> Option<Msg> {
        #[cfg(not(verif_replay))]
        unsafe {
            let _ = rx;
            let h = RECV_HEAD - RECV_BASE;
            let t = RECV_TAIL - (RECV_BASE + 0x10);
            if h < t {
                RECV_HEAD += 1;
                Some(core::mem::transmute_copy::<usize, Msg>(&RECV_Q[h]))
            } else {
                None
            }
        }
        #[cfg(verif_replay)]
        {
            use futures::StreamExt;
            futures::executor::block_on(rx.next())
        }
    }

    /// Generic twins of queue_for_recv / recv_now / ready_task / join_now for the per-chromosome result channel of
    /// write_chroms_with_zooms (harness c14_chrom_result_propagates): one boxed message, then the channel is closed.
    // the message travels as a typed pointer (no pointer<->integer cast: CBMC would lose the object, and with it
    // the concrete length of the empty zoom vector inside the message); "empty" = pointing at BOXQ_NONE
    pub static mut BOXQ_NONE: u8 = 0x5A;
    pub static mut BOXQ: *mut u8 = unsafe { core::ptr::addr_of_mut!(BOXQ_NONE) };
    pub fn queue_boxed<T>(tx: &mut futures::channel::mpsc::UnboundedSender<T>, msg: T) {
        #[cfg(not(verif_replay))]
        unsafe {
            let _ = tx;
            kani::assert(BOXQ == core::ptr::addr_of_mut!(BOXQ_NONE), "[env] boxed queue holds one message");
            BOXQ = Box::into_raw(Box::new(msg)) as *mut u8;
        }
        #[cfg(verif_replay)]
        {
            let r = tx.unbounded_send(msg);
            assert!(r.is_ok(), "queue");
        }
    }
    pub fn recv_boxed<T>(rx: &mut futures::channel::mpsc::UnboundedReceiver<T>) -> Option<T> {
        #[cfg(not(verif_replay))]
        unsafe {
            let _ = rx;
            if BOXQ != core::ptr::addr_of_mut!(BOXQ_NONE) {
                let p = BOXQ as *mut T;
                BOXQ = core::ptr::addr_of_mut!(BOXQ_NONE);
                Some(*Box::from_raw(p))
            } else {
                None
            }
        }
        #[cfg(verif_replay)]
        {
            use futures::StreamExt;
            futures::executor::block_on(rx.next())
        }
    }
    pub fn ready_task_t<T: Send + 'static>(env: &Env, out: T) -> JoinHandle<T> {
        #[cfg(not(verif_replay))]
        unsafe {
            let _ = env;
            let p: *mut T = Box::into_raw(Box::new(out));
            core::mem::transmute_copy::<*mut T, JoinHandle<T>>(&p)
        }
        #[cfg(verif_replay)]
        {
            env.rt.spawn(async move { out })
        }
    }
    pub fn join_now_t<T>(h: JoinHandle<T>) -> T {
        #[cfg(not(verif_replay))]
        unsafe {
            let p: *mut T = core::mem::transmute_copy::<JoinHandle<T>, *mut T>(&h);
            core::mem::forget(h);
            *Box::from_raw(p)
        }
        #[cfg(verif_replay)]
        {
            futures::executor::block_on(h).unwrap()
        }
    }

    /// stub for crossbeam_channel::Sender::send: count only (the receiving side is not part of the harness)
    pub static mut CB_SENT_RAW: usize = 0x5EED_0000_0000_0300;
    pub fn cb_sent() -> usize { unsafe { CB_SENT_RAW - 0x5EED_0000_0000_0300 } }
    pub fn fake_cb_send<T>(_s: &crossbeam_channel::Sender<T>, msg: T) -> Result<(), crossbeam_channel::SendError<T>> {
        core::mem::forget(msg);
        unsafe { CB_SENT_RAW += 1; }
        Ok(())
    }

    pub struct Env {
        #[cfg(not(verif_replay))]
        handle: MaybeUninit<Handle>,
        #[cfg(verif_replay)]
        rt: tokio::runtime::Runtime,
        pub tx: Sender<Msg>,
        rx: Receiver<Msg>,
        taken: usize,
        #[cfg(verif_replay)]
        pending: Vec<Msg>,
    }

    impl Env {
        /// never dropped (ManuallyDrop): the uninitialised Handle and queued tokens must not run drop glue
        pub fn new() -> core::mem::ManuallyDrop<Env> {
            let (tx, rx) = channel::<Msg>(LOG_CAP);
            core::mem::ManuallyDrop::new(Env {
                #[cfg(not(verif_replay))]
                handle: MaybeUninit::uninit(),
                #[cfg(verif_replay)]
                rt: tokio::runtime::Builder::new_multi_thread().worker_threads(1).build().unwrap(),
                tx,
                rx,
                taken: 0,
                #[cfg(verif_replay)]
                pending: Vec::new(),
            })
        }
        /// the runtime handle handed to bigtools (kani: never read, spawn is stubbed)
        pub fn handle(&self) -> &'static Handle {
            #[cfg(not(verif_replay))]
            unsafe {
                &*self.handle.as_ptr()
            }
            #[cfg(verif_replay)]
            unsafe {
                &*(self.rt.handle() as *const Handle)
            }
        }
        /// an OWNED handle for structs that store one (kani: uninitialised bits, never read because spawn
        /// is stubbed, and the owner must be ManuallyDrop; native replay: a clone of the real handle)
        pub fn handle_owned(&self) -> Handle {
            #[cfg(not(verif_replay))]
            unsafe {
                core::ptr::read(self.handle.as_ptr())
            }
            #[cfg(verif_replay)]
            {
                self.rt.handle().clone()
            }
        }
        /// a task handle whose task has already completed with `out` (kani: the boxed-output token that
        /// fake_spawn produces; native replay: a real task on the real runtime)
        pub fn ready_task(&self, out: Out) -> Msg {
            #[cfg(not(verif_replay))]
            unsafe {
                let p: *mut Out = Box::into_raw(Box::new(out));
                core::mem::transmute_copy::<*mut Out, Msg>(&p)
            }
            #[cfg(verif_replay)]
            {
                self.rt.spawn(async move { out })
            }
        }
        /// number of sections sent so far
        pub fn sent(&mut self) -> usize {
            #[cfg(not(verif_replay))]
            {
                sent_n()
            }
            #[cfg(verif_replay)]
            unsafe {
                // native replay: messages arrive on the real channel (or in the log, for `@sub` harnesses)
                while let Ok(Some(h)) = self.rx.try_next() {
                    self.pending.push(h);
                }
                sent_n() + self.pending.len() + self.taken
            }
        }
        /// number of tasks spawned so far (native replay: every spawned task is also sent)
        pub fn spawned(&mut self) -> usize {
            #[cfg(not(verif_replay))]
            {
                spawned_n()
            }
            #[cfg(verif_replay)]
            {
                self.sent()
            }
        }
        /// next section output, in send order (None when nothing more was sent)
        pub fn take(&mut self) -> Option<Out> {
            #[cfg(not(verif_replay))]
            unsafe {
                if self.taken >= sent_n() {
                    return None;
                }
                let p = SLOTS[self.taken] as *mut Out;
                self.taken += 1;
                Some(*Box::from_raw(p))
            }
            #[cfg(verif_replay)]
            {
                let _ = self.sent();
                if self.pending.is_empty() {
                    return None;
                }
                let h = self.pending.remove(0);
                self.taken += 1;
                Some(self.rt.block_on(h).unwrap())
            }
        }
    }
}

/// a regular file with given length whose byte i is (i as u8) ^ 0x5a.
/// kani: fd 3 of the C libc model (model/verif_libc.c). native replay: a real temporary file.
pub mod vfile {
    use std::fs::File;
    #[cfg(not(verif_replay))]
    extern "C" {
        fn verif_file_set_len(fd: i32, len: i64) -> i32;
        fn verif_file_set_byte(fd: i32, i: i64, b: u8) -> i32;
    }
    pub const PATTERN_LEN: i64 = 12;
    pub fn pattern(i: u64) -> u8 {
        (i as u8) ^ 0x5a
    }
    #[cfg(not(verif_replay))]
    pub fn make(len: i64) -> File {
        use std::os::fd::FromRawFd;
        unsafe {
            verif_file_set_len(3, len);
            verif_file_set_byte(3, 0, pattern(0)); verif_file_set_byte(3, 1, pattern(1));
            verif_file_set_byte(3, 2, pattern(2)); verif_file_set_byte(3, 3, pattern(3));
            verif_file_set_byte(3, 4, pattern(4)); verif_file_set_byte(3, 5, pattern(5));
            verif_file_set_byte(3, 6, pattern(6)); verif_file_set_byte(3, 7, pattern(7));
            verif_file_set_byte(3, 8, pattern(8)); verif_file_set_byte(3, 9, pattern(9));
            verif_file_set_byte(3, 10, pattern(10)); verif_file_set_byte(3, 11, pattern(11));
            File::from_raw_fd(3)
        }
    }
    #[cfg(verif_replay)]
    pub fn make(len: i64) -> File {
        use std::io::Write;
        let mut p = std::env::temp_dir();
        p.push(format!("verif-replay-{}-{}", std::process::id(), len));
        let mut f = File::create(&p).unwrap();
        let bytes: Vec<u8> = (0..len as u64).map(pattern).collect();
        f.write_all(&bytes).unwrap();
        drop(f);
        let f = File::open(&p).unwrap();
        let _ = std::fs::remove_file(&p);
        f
    }
}

/// Sequence model standing in for index_list::IndexList (a third-party container whose index-linked
/// Vec representation turns every operation into symbolic-index heap updates once branches merge:
/// measured out-of-memory at 44 GB for ONE bigBed process_val call). Harnesses that name it switch the
/// scratch copy of bigbedwrite.rs from `use index_list::IndexList;` to this type with ONE source
/// substitution (`@sub`); kani::stub cannot be used here because kani-compiler 0.68 panics on the
/// original generic bodies (`Option<&mut T>` constants).
/// The model is the documented list contract for the operations bigtools uses: elements kept in list
/// order in an inline array of CAP (= 4: two entries make at most three pieces) slots; a ListIndex is position+1 (0 = none) and is only valid until
/// the next insertion/removal *before* it - which is how bigtools uses indices (walk forward with
/// next_index; insert_after the current index, then stop). Capacity overflow is an assertion failure.
/// `c08_indexlist_model_agrees` checks the model against the real IndexList on symbolic op sequences.
pub mod ilist {
    pub const CAP: usize = 4;
    #[derive(Clone, Copy, PartialEq, Eq)]
    pub struct ListIndex(u32);
    impl ListIndex {
        pub fn is_some(&self) -> bool { self.0 != 0 }
        pub fn is_none(&self) -> bool { self.0 == 0 }
    }
    pub struct IndexList<T: Copy> {
        items: [Option<T>; CAP],
        n: usize,
    }
    impl<T: Copy> IndexList<T> {
        pub fn new() -> Self { IndexList { items: [None; CAP], n: 0 } }
        pub fn len(&self) -> usize { self.n }
        pub fn first_index(&self) -> ListIndex { if self.n > 0 { ListIndex(1) } else { ListIndex(0) } }
        pub fn next_index(&self, index: ListIndex) -> ListIndex {
            if index.0 != 0 && (index.0 as usize) < self.n { ListIndex(index.0 + 1) } else { ListIndex(0) }
        }
        pub fn get_mut(&mut self, index: ListIndex) -> Option<&mut T> {
            if index.0 == 0 || index.0 as usize > self.n { return None; }
            self.items[index.0 as usize - 1].as_mut()
        }
        pub fn get(&self, index: ListIndex) -> Option<&T> {
            if index.0 == 0 || index.0 as usize > self.n { return None; }
            self.items[index.0 as usize - 1].as_ref()
        }
        pub fn get_first(&self) -> Option<&T> { if self.n > 0 { self.items[0].as_ref() } else { None } }
        pub fn get_last(&self) -> Option<&T> { if self.n > 0 { self.items[self.n - 1].as_ref() } else { None } }
        fn insert_at(&mut self, p: usize, v: T) {
            kani::assert(self.n < CAP, "[ilist] model capacity exceeded");
            kani::assume(self.n < CAP);
            let mut i = CAP - 1;
            while i > 0 {
                if i > p && i <= self.n { self.items[i] = self.items[i - 1]; }
                i -= 1;
            }
            self.items[p] = Some(v);
            self.n += 1;
        }
        pub fn insert_after(&mut self, index: ListIndex, elem: T) -> ListIndex {
            if index.0 != 0 && index.0 as usize <= self.n {
                self.insert_at(index.0 as usize, elem);
                ListIndex(index.0 + 1)
            } else {
                // the real list appends when the index is invalid
                let n = self.n;
                self.insert_at(n, elem);
                ListIndex(self.n as u32)
            }
        }
        pub fn insert_last(&mut self, elem: T) -> ListIndex {
            let n = self.n;
            self.insert_at(n, elem);
            ListIndex(self.n as u32)
        }
        pub fn insert_first(&mut self, elem: T) -> ListIndex {
            self.insert_at(0, elem);
            ListIndex(1)
        }
        pub fn remove_first(&mut self) -> Option<T> {
            if self.n == 0 { return None; }
            let v = self.items[0];
            let mut i = 0;
            while i + 1 < CAP {
                if i + 1 < self.n { self.items[i] = self.items[i + 1]; }
                i += 1;
            }
            self.n -= 1;
            self.items[self.n] = None;
            v
        }
    }
}

/// An in-memory file whose `read` copies byte by byte (std's Cursor copies with memcpy, after which CBMC no
/// longer constant-propagates the magic numbers, counts and sizes the readers branch and loop on).
pub struct LoopCursor {
    pub data: Vec<u8>,
    pub pos: u64,
}
impl LoopCursor {
    pub fn new(data: Vec<u8>) -> Self { LoopCursor { data, pos: 0 } }
}
impl io::Read for LoopCursor {
    fn read(&mut self, buf: &mut [u8]) -> io::Result<usize> {
        let len = self.data.len() as u64;
        let start = if self.pos < len { self.pos } else { len } as usize;
        let avail = self.data.len() - start;
        let n = if buf.len() < avail { buf.len() } else { avail };
        // 8 bytes per loop iteration: the loop bound of a harness then only has to cover len/8
        let mut i = 0;
        while i < n {
            buf[i] = self.data[start + i];
            if i + 1 < n { buf[i + 1] = self.data[start + i + 1]; }
            if i + 2 < n { buf[i + 2] = self.data[start + i + 2]; }
            if i + 3 < n { buf[i + 3] = self.data[start + i + 3]; }
            if i + 4 < n { buf[i + 4] = self.data[start + i + 4]; }
            if i + 5 < n { buf[i + 5] = self.data[start + i + 5]; }
            if i + 6 < n { buf[i + 6] = self.data[start + i + 6]; }
            if i + 7 < n { buf[i + 7] = self.data[start + i + 7]; }
            i += 8;
        }
        self.pos += n as u64;
        Ok(n)
    }
}
impl io::Seek for LoopCursor {
    fn seek(&mut self, to: io::SeekFrom) -> io::Result<u64> {
        let (base, off) = match to {
            io::SeekFrom::Start(n) => { self.pos = n; return Ok(n); }
            io::SeekFrom::End(n) => (self.data.len() as u64, n),
            io::SeekFrom::Current(n) => (self.pos, n),
        };
        match base.checked_add_signed(off) {
            Some(n) => { self.pos = n; Ok(n) }
            None => Err(io::Error::from(io::ErrorKind::InvalidInput)),
        }
    }
}

/// Model of the part of `bytes::BytesMut` that `bigbedread::get_block_entries` uses (with_capacity,
/// extend_from_slice, len, get_u32, get_u32_le, get_u8, split_to, and Deref to the unread bytes).
/// Reason: the real BytesMut keeps tagged integers in a pointer field (KIND_VEC position bits) and
/// promotes to a shared allocation in split_to; under CBMC the pointer<->integer casts make the
/// remaining length symbolic and symbolic execution of a 27-byte block did not finish in 40 min.
/// `c02_bytes_model_agrees` checks the model against the real BytesMut on the operation sequence used.
pub mod bbuf {
    pub struct BytesMut {
        v: Vec<u8>,
        pos: usize,
    }
    impl BytesMut {
        pub fn with_capacity(n: usize) -> Self { BytesMut { v: Vec::with_capacity(n), pos: 0 } }
        // byte loops instead of memcpy: CBMC's memcpy (array_replace) turns every byte of the destination
        // object into a byte_extract expression that symex no longer constant-propagates
        pub fn extend_from_slice(&mut self, s: &[u8]) {
            // 8 bytes per loop iteration (see LoopCursor::read)
            let n = s.len();
            let mut i = 0;
            while i < n {
                self.v.push(s[i]);
                if i + 1 < n { self.v.push(s[i + 1]); }
                if i + 2 < n { self.v.push(s[i + 2]); }
                if i + 3 < n { self.v.push(s[i + 3]); }
                if i + 4 < n { self.v.push(s[i + 4]); }
                if i + 5 < n { self.v.push(s[i + 5]); }
                if i + 6 < n { self.v.push(s[i + 6]); }
                if i + 7 < n { self.v.push(s[i + 7]); }
                i += 8;
            }
        }
        pub fn len(&self) -> usize { self.v.len() - self.pos }
        fn byte(&mut self) -> u8 {
            let b = self.v[self.pos];
            self.pos += 1;
            b
        }
        pub fn get_u8(&mut self) -> u8 { self.byte() }
        pub fn get_u32(&mut self) -> u32 {
            assert!(self.len() >= 4, "[bbuf] get_u32 past the end (the real Buf panics too)");
            let a = [self.byte(), self.byte(), self.byte(), self.byte()];
            u32::from_be_bytes(a)
        }
        pub fn get_u32_le(&mut self) -> u32 {
            assert!(self.len() >= 4, "[bbuf] get_u32_le past the end (the real Buf panics too)");
            let a = [self.byte(), self.byte(), self.byte(), self.byte()];
            u32::from_le_bytes(a)
        }
        pub fn zeroed(n: usize) -> Self {
            let mut v = Vec::with_capacity(n);
            let mut i = 0;
            while i < n {
                v.push(0u8);
                if i + 1 < n { v.push(0u8); }
                if i + 2 < n { v.push(0u8); }
                if i + 3 < n { v.push(0u8); }
                if i + 4 < n { v.push(0u8); }
                if i + 5 < n { v.push(0u8); }
                if i + 6 < n { v.push(0u8); }
                if i + 7 < n { v.push(0u8); }
                i += 8;
            }
            BytesMut { v, pos: 0 }
        }
        pub fn advance(&mut self, n: usize) {
            assert!(n <= self.len(), "[bbuf] advance past the end (the real Buf panics too)");
            self.pos += n;
        }
        pub fn get_u16(&mut self) -> u16 {
            assert!(self.len() >= 2, "[bbuf] get_u16 past the end (the real Buf panics too)");
            let a = [self.byte(), self.byte()];
            u16::from_be_bytes(a)
        }
        pub fn get_u16_le(&mut self) -> u16 {
            assert!(self.len() >= 2, "[bbuf] get_u16_le past the end (the real Buf panics too)");
            let a = [self.byte(), self.byte()];
            u16::from_le_bytes(a)
        }
        pub fn get_u64(&mut self) -> u64 {
            assert!(self.len() >= 8, "[bbuf] get_u64 past the end (the real Buf panics too)");
            let a = [self.byte(), self.byte(), self.byte(), self.byte(), self.byte(), self.byte(), self.byte(), self.byte()];
            u64::from_be_bytes(a)
        }
        pub fn get_u64_le(&mut self) -> u64 {
            assert!(self.len() >= 8, "[bbuf] get_u64_le past the end (the real Buf panics too)");
            let a = [self.byte(), self.byte(), self.byte(), self.byte(), self.byte(), self.byte(), self.byte(), self.byte()];
            u64::from_le_bytes(a)
        }
        pub fn get_f32(&mut self) -> f32 { f32::from_bits(self.get_u32()) }
        pub fn get_f32_le(&mut self) -> f32 { f32::from_bits(self.get_u32_le()) }
        pub fn split_to(&mut self, at: usize) -> BytesMut {
            assert!(at <= self.len(), "[bbuf] split_to out of bounds (the real BytesMut panics too)");
            let mut front = Vec::with_capacity(at);
            let p = self.pos;
            let mut i = 0;
            while i < at {
                front.push(self.v[p + i]);
                if i + 1 < at { front.push(self.v[p + i + 1]); }
                if i + 2 < at { front.push(self.v[p + i + 2]); }
                if i + 3 < at { front.push(self.v[p + i + 3]); }
                if i + 4 < at { front.push(self.v[p + i + 4]); }
                if i + 5 < at { front.push(self.v[p + i + 5]); }
                if i + 6 < at { front.push(self.v[p + i + 6]); }
                if i + 7 < at { front.push(self.v[p + i + 7]); }
                i += 8;
            }
            self.pos += at;
            BytesMut { v: front, pos: 0 }
        }
    }
    impl core::ops::Deref for BytesMut {
        type Target = [u8];
        fn deref(&self) -> &[u8] { &self.v[self.pos..] }
    }
    impl core::ops::DerefMut for BytesMut {
        fn deref_mut(&mut self) -> &mut [u8] { let p = self.pos; &mut self.v[p..] }
    }
    impl AsRef<[u8]> for BytesMut {
        fn as_ref(&self) -> &[u8] { &self.v[self.pos..] }
    }
}

/// Model of the part of `std::collections::HashMap` that `CachedBBIFileRead` uses (new, entry -> Occupied::get /
/// Vacant::insert, get, insert, len, clear, clone): an association list. Reason: hashbrown's SIMD group probing
/// (`simd_bitmask` over control bytes) does not finish symbolic execution (90 min, also with fixed hash keys).
/// ASSUMPTION (not solver-checked, for the same reason): std's HashMap behaves as a finite map.
pub mod hmap {
    pub struct HashMap<K, V> {
        items: Vec<(K, V)>,
    }
    pub enum Entry<'a, K, V> {
        Occupied(OccupiedEntry<'a, K, V>),
        Vacant(VacantEntry<'a, K, V>),
    }
    pub struct OccupiedEntry<'a, K, V> {
        map: &'a mut HashMap<K, V>,
        idx: usize,
    }
    pub struct VacantEntry<'a, K, V> {
        map: &'a mut HashMap<K, V>,
        key: K,
    }
    impl<K: PartialEq, V> HashMap<K, V> {
        pub fn new() -> Self { HashMap { items: Vec::with_capacity(4) } }
        fn find(&self, k: &K) -> Option<usize> {
            let mut i = 0;
            while i < self.items.len() {
                if self.items[i].0 == *k { return Some(i); }
                i += 1;
            }
            None
        }
        pub fn len(&self) -> usize { self.items.len() }
        pub fn clear(&mut self) { self.items.clear() }
        pub fn get<Q: ?Sized + PartialEq>(&self, k: &Q) -> Option<&V> where K: core::borrow::Borrow<Q> {
            let mut i = 0;
            while i < self.items.len() {
                if self.items[i].0.borrow() == k { return Some(&self.items[i].1); }
                i += 1;
            }
            None
        }
        /// iteration order of a real HashMap is unspecified; the model iterates in REVERSE insertion order so
        /// that code relying on insertion order is not accidentally accepted
        pub fn iter(&self) -> Iter<'_, K, V> { Iter { map: self, left: self.items.len() } }
        pub fn insert(&mut self, k: K, v: V) -> Option<V> {
            match self.find(&k) {
                Some(i) => Some(core::mem::replace(&mut self.items[i].1, v)),
                None => {
                    assert!(self.items.len() < 4, "[hmap] model capacity exceeded");
                    self.items.push((k, v));
                    None
                }
            }
        }
        pub fn entry(&mut self, k: K) -> Entry<'_, K, V> {
            match self.find(&k) {
                Some(idx) => Entry::Occupied(OccupiedEntry { map: self, idx }),
                None => Entry::Vacant(VacantEntry { map: self, key: k }),
            }
        }
    }
    pub struct Iter<'a, K, V> {
        map: &'a HashMap<K, V>,
        left: usize,
    }
    impl<'a, K, V> Iterator for Iter<'a, K, V> {
        type Item = (&'a K, &'a V);
        fn next(&mut self) -> Option<Self::Item> {
            if self.left == 0 { return None; }
            self.left -= 1;
            let it = &self.map.items[self.left];
            Some((&it.0, &it.1))
        }
    }
    impl<K, V> Default for HashMap<K, V> {
        fn default() -> Self { HashMap { items: Vec::with_capacity(4) } }
    }
    impl<K, V> core::fmt::Debug for HashMap<K, V> {
        fn fmt(&self, _f: &mut core::fmt::Formatter<'_>) -> core::fmt::Result { Ok(()) }
    }
    impl<'a, K, V> Entry<'a, K, V> {
        pub fn or_insert(self, default: V) -> &'a mut V {
            match self {
                Entry::Occupied(o) => &mut o.map.items[o.idx].1,
                Entry::Vacant(v) => v.insert(default),
            }
        }
    }
    impl<K: Clone, V: Clone> Clone for HashMap<K, V> {
        fn clone(&self) -> Self { HashMap { items: self.items.clone() } }
    }
    impl<'a, K, V> OccupiedEntry<'a, K, V> {
        pub fn get(&self) -> &V { &self.map.items[self.idx].1 }
    }
    impl<'a, K, V> VacantEntry<'a, K, V> {
        pub fn insert(self, v: V) -> &'a mut V {
            assert!(self.map.items.len() < 4, "[hmap] model capacity exceeded");
            self.map.items.push((self.key, v));
            let n = self.map.items.len();
            &mut self.map.items[n - 1].1
        }
    }
}


/// Variant of `hmap` for the writers (IdMap / write_chrom_tree use new, default, insert, get, iter, len and
/// `entry(k).or_insert(v)` only): `Entry` is a plain STRUCT. The enum-shaped Entry of `hmap` carries the
/// `&mut` to the map inside an enum variant, i.e. through a C union for CBMC, after which the map is reached
/// through an opaque pointer and its length and contents are no longer folded (measured with the spin probe).
pub mod hmapw {
    pub struct HashMap<K, V> {
        items: Vec<(K, V)>,
    }
    pub struct Entry<'a, K, V> {
        map: &'a mut HashMap<K, V>,
        key: K,
        idx: usize,
    }
    const VACANT: usize = usize::MAX;
    impl<K: PartialEq, V> HashMap<K, V> {
        pub fn new() -> Self { HashMap { items: Vec::with_capacity(4) } }
        fn find<Q: ?Sized + PartialEq>(&self, k: &Q) -> usize where K: core::borrow::Borrow<Q> {
            let mut i = 0;
            while i < self.items.len() {
                if self.items[i].0.borrow() == k { return i; }
                i += 1;
            }
            VACANT
        }
        pub fn len(&self) -> usize { self.items.len() }
        pub fn get<Q: ?Sized + PartialEq>(&self, k: &Q) -> Option<&V> where K: core::borrow::Borrow<Q> {
            let i = self.find(k);
            if i == VACANT { None } else { Some(&self.items[i].1) }
        }
        pub fn insert(&mut self, k: K, v: V) -> Option<V> {
            let i = self.find(&k);
            if i == VACANT {
                assert!(self.items.len() < 4, "[hmap] model capacity exceeded");
                self.items.push((k, v));
                None
            } else {
                Some(core::mem::replace(&mut self.items[i].1, v))
            }
        }
        pub fn entry(&mut self, k: K) -> Entry<'_, K, V> {
            let idx = self.find(&k);
            Entry { map: self, key: k, idx }
        }
        /// reverse insertion order (a real HashMap's order is unspecified)
        pub fn iter(&self) -> Iter<'_, K, V> { Iter { map: self, left: self.items.len() } }
    }
    impl<'a, K, V> Entry<'a, K, V> {
        pub fn or_insert(self, default: V) -> &'a mut V {
            if self.idx == VACANT {
                assert!(self.map.items.len() < 4, "[hmap] model capacity exceeded");
                self.map.items.push((self.key, default));
                let n = self.map.items.len();
                &mut self.map.items[n - 1].1
            } else {
                &mut self.map.items[self.idx].1
            }
        }
    }
    pub struct Iter<'a, K, V> {
        map: &'a HashMap<K, V>,
        left: usize,
    }
    impl<'a, K, V> Iterator for Iter<'a, K, V> {
        type Item = (&'a K, &'a V);
        fn next(&mut self) -> Option<Self::Item> {
            if self.left == 0 { return None; }
            self.left -= 1;
            let it = &self.map.items[self.left];
            Some((&it.0, &it.1))
        }
    }
    impl<K, V> Default for HashMap<K, V> {
        fn default() -> Self { HashMap { items: Vec::with_capacity(4) } }
    }
    impl<K, V> core::fmt::Debug for HashMap<K, V> {
        fn fmt(&self, _f: &mut core::fmt::Formatter<'_>) -> core::fmt::Result { Ok(()) }
    }
    impl<K: Clone, V: Clone> Clone for HashMap<K, V> {
        fn clone(&self) -> Self { HashMap { items: self.items.clone() } }
    }
}
