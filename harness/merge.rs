use super::*;

// @harness c15_merge_into
// @props C15
// @tier quick
// @kind core
// @timeout 600
// @mem 12
// @functions utils::merge::merge_into
// @bounds none: loop-free; coordinates full u32 width, values any non-NaN finite f32
// @assumes both values non-empty (start<end), overlapping (documented precondition), values finite
// @witness cover: 1,2,3 and 4 returned pieces all reachable
#[kani::proof]
fn c15_merge_into() {
    let one = Value { start: kani::any(), end: kani::any(), value: kani::any() };
    let two = Value { start: kani::any(), end: kani::any(), value: kani::any() };
    kani::assume(one.start < one.end && two.start < two.end);
    kani::assume(one.end > two.start && two.end > one.start);
    kani::assume(one.value.is_finite() && two.value.is_finite());
    let (a, b, c, d) = merge_into(one, two);
    let mut pieces: [Option<Value>; 4] = [Some(a), b, c, d];
    // collect in returned order
    let lo = if one.start < two.start { one.start } else { two.start };
    let hi = if one.end > two.end { one.end } else { two.end };
    let mut cursor = lo;
    let mut n = 0;
    let mut i = 0;
    while i < 4 {
        if let Some(p) = pieces[i] {
            n += 1;
            // ordered, disjoint, gapless tiling of one ∪ two
            assert!(p.start == cursor, "[tiling] piece does not start where the previous ended");
            assert!(p.start < p.end, "[nonempty] empty piece");
            cursor = p.end;
            // per-base value: the per-base sum of the inputs is piecewise constant with breakpoints only
            // at input boundaries, so checking the first base of the piece and every input boundary
            // that lies inside the piece checks every base of the piece (pieces MAY straddle an input
            // boundary when the value does not change there: the zero special cases)
            let pts = [p.start, one.start, one.end, two.start, two.end];
            let mut k = 0;
            while k < 5 {
                let x = pts[k];
                if p.start <= x && x < p.end {
                    let in1 = one.start <= x && x < one.end;
                    let in2 = two.start <= x && x < two.end;
                    assert!(in1 || in2, "[member] piece covers a base outside both inputs");
                    let want = if in1 && in2 { one.value + two.value } else if in1 { one.value } else { two.value };
                    assert!(p.value == want, "[value] piece value is not the per-base sum");
                }
                k += 1;
            }
        }
        i += 1;
    }
    assert!(cursor == hi, "[cover] pieces do not reach the end of the union");
    kani::cover!(n == 1, "one piece");
    kani::cover!(n == 2, "two pieces");
    kani::cover!(n == 3, "three pieces");
    kani::cover!(pieces[3].is_some() && pieces[1].is_some(), "overhang with split");
}
