use super::*;

// @harness c15_merge_into
// @props C15
// @tier quick
// @kind core
// @timeout 600
// @mem 12
// @functions utils::merge::merge_into
// @bounds none: loop-free; coordinates full u32 width, values any non-NaN finite f32
// @assumes both values non-empty (start<end), overlapping (documented precondition), values finite
// @witness cover: 1,2,3 and 4 returned pieces all reachable
#[kani::proof]
fn c15_merge_into() {
    let one = Value { start: kani::any(), end: kani::any(), value: kani::any() };
    let two = Value { start: kani::any(), end: kani::any(), value: kani::any() };
    kani::assume(one.start < one.end && two.start < two.end);
    kani::assume(one.end > two.start && two.end > one.start);
    kani::assume(one.value.is_finite() && two.value.is_finite());
    let (a, b, c, d) = merge_into(one, two);
    let mut pieces: [Option<Value>; 4] = [Some(a), b, c, d];
    // collect in returned order
    let lo = if one.start < two.start { one.start } else { two.start };
    let hi = if one.end > two.end { one.end } else { two.end };
    let mut cursor = lo;
    let mut n = 0;
    let mut i = 0;
    while i < 4 {
        if let Some(p) = pieces[i] {
            n += 1;
            // ordered, disjoint, gapless tiling of one ∪ two
            assert!(p.start == cursor, "[tiling] piece does not start where the previous ended");
            assert!(p.start < p.end, "[nonempty] empty piece");
            cursor = p.end;
            // per-base value: the per-base sum of the inputs is piecewise constant with breakpoints only
            // at input boundaries, so checking the first base of the piece and every input boundary
            // that lies inside the piece checks every base of the piece (pieces MAY straddle an input
            // boundary when the value does not change there: the zero special cases)
            let pts = [p.start, one.start, one.end, two.start, two.end];
            let mut k = 0;
            while k < 5 {
                let x = pts[k];
                if p.start <= x && x < p.end {
                    let in1 = one.start <= x && x < one.end;
                    let in2 = two.start <= x && x < two.end;
                    assert!(in1 || in2, "[member] piece covers a base outside both inputs");
                    let want = if in1 && in2 { one.value + two.value } else if in1 { one.value } else { two.value };
                    assert!(p.value == want, "[value] piece value is not the per-base sum");
                }
                k += 1;
            }
        }
        i += 1;
    }
    assert!(cursor == hi, "[cover] pieces do not reach the end of the union");
    kani::cover!(n == 1, "one piece");
    kani::cover!(n == 2, "two pieces");
    kani::cover!(n == 3, "three pieces");
    kani::cover!(pieces[3].is_some() && pieces[1].is_some(), "overhang with split");
}

pub struct TwoVals {
    v: [Value; 2],
    n: usize,
    i: usize,
}
impl Iterator for TwoVals {
    type Item = Result<Value, ()>;
    fn next(&mut self) -> Option<Self::Item> {
        if self.i < self.n {
            let x = self.v[self.i];
            self.i += 1;
            Some(Ok(x))
        } else {
            None
        }
    }
}

// @harness c15_merge_many_windows
// @props C15
// @tier off
// @kind stretch
// @timeout 5400
// @mem 32
// @sub src/utils/merge.rs ::: const DATA_SIZE: usize = 50000; ::: const DATA_SIZE: usize = 4;
// @functions utils::merge::merge_sections_many / ValueIter::next (window accumulation, run extraction, last_val hand-over between windows, insert_into_queue -> merge_into), with the work-window constant DATA_SIZE reduced from 50,000 to 4 bases by source substitution in the scratch copy (nothing else changed)
// @bounds two input streams: A with two values, B with one value; coordinates <= 8 (two 4-base windows: values inside a window, crossing the boundary, ending on it); A's values 1.0 and 2.0, B's value -1.0 (cancels A's first) or 4.0; the merged stream is drained (<= 7 next() calls) and compared with the per-base sum at every base 0..8
// @assumes each stream sorted, non-overlapping, non-empty values
// @measured symbolic execution did not finish in 90 min (about 240 loop iterations reached: Vec::insert with a symbolic index, Box<dyn Iterator>, f64 accumulation under symbolic ranges); kept off, not part of any claim
// @cut the real 50,000-base window (the per-base loops are linear in it); more than two streams; error items
// @witness cover: a value crossing the window boundary; a cancelling base; the first window yields exactly one run and the second has data
#[kani::proof]
#[kani::unwind(10)]
#[kani::stub(alloc::fmt::format, crate::verif_support::fake_format)]
fn c15_merge_many_windows() {
    let (a0s, a0e, a1s, a1e, bs, be): (u32, u32, u32, u32, u32, u32) = (kani::any(), kani::any(), kani::any(), kani::any(), kani::any(), kani::any());
    kani::assume(a0s < a0e && a0e <= a1s && a1s < a1e && a1e <= 8 && bs < be && be <= 8);
    let bneg: bool = kani::any();
    let bv: f32 = if bneg { -1.0 } else { 4.0 };
    let a = TwoVals { v: [Value { start: a0s, end: a0e, value: 1.0 }, Value { start: a1s, end: a1e, value: 2.0 }], n: 2, i: 0 };
    let b = TwoVals { v: [Value { start: bs, end: be, value: bv }, Value { start: 0, end: 0, value: 0.0 }], n: 1, i: 0 };
    let mut srcs: Vec<TwoVals> = Vec::with_capacity(2);
    srcs.push(a);
    srcs.push(b);
    let mut it = merge_sections_many(srcs);
    // drain
    let mut out: [(u32, u32, f32); 8] = [(0, 0, 0.0); 8];
    let mut n = 0usize;
    let mut done = false;
    let mut k = 0;
    while k < 8 {
        if !done {
            match it.next() {
                Some(Ok(v)) => { out[n] = (v.start, v.end, v.value); n += 1; }
                Some(Err(_)) => { assert!(false, "[no_error] error item from error-free inputs"); }
                None => { done = true; }
            }
        }
        k += 1;
    }
    assert!(done, "[terminates] more than 7 output values for 3 input values over 8 bases");
    // sorted, non-overlapping, non-empty
    let mut i = 0;
    while i < 8 {
        if i < n {
            assert!(out[i].0 < out[i].1, "[nonempty] empty output value");
            if i + 1 < n { assert!(out[i].1 <= out[i + 1].0, "[sorted] output values overlap or are out of order"); }
        }
        i += 1;
    }
    // per-base sum
    let mut base = 0u32;
    while base < 9 {
        let mut exp = 0.0f32;
        if a0s <= base && base < a0e { exp += 1.0; }
        if a1s <= base && base < a1e { exp += 2.0; }
        if bs <= base && base < be { exp += bv; }
        let mut got = 0.0f32;
        let mut present = false;
        let mut j = 0;
        while j < 8 {
            if j < n && out[j].0 <= base && base < out[j].1 { got = out[j].2; present = true; }
            j += 1;
        }
        if exp == 0.0 {
            assert!(!present || got == 0.0, "[absent] output has a non-zero value where the inputs sum to zero / have no data");
        } else {
            assert!(present && got == exp, "[per_base_sum] output value differs from the sum of the inputs at a base");
        }
        base += 1;
    }
    let c1 = (a0s < 4) & (a0e > 4);
    kani::cover!(c1, "a value crosses the window boundary");
    let c2 = bneg & (bs <= a0s) & (be >= a0e);
    kani::cover!(c2, "A's first value cancelled");
    let c3 = (a0e <= 4) & (a1s >= 4) & (bs >= 4);
    kani::cover!(c3, "first window has exactly one run and the second has data");
    core::mem::forget(it);
}

// @harness c15_merge_many_one_stream
// @props C15
// @tier off
// @kind stretch
// @timeout 3600
// @mem 32
// @sub src/utils/merge.rs ::: const DATA_SIZE: usize = 50000; ::: const DATA_SIZE: usize = 4;
// @functions utils::merge::merge_sections_many / ValueIter::next on ONE input stream (window accumulation, run extraction, last_val hand-over between windows), work-window constant reduced from 50,000 to 4 bases by source substitution
// @bounds one stream with two values, the first inside window [0,4), the second inside window [4,8) (symbolic positions), values 1.0 and 2.0; the merged stream is drained (<= 4 next() calls) and compared with the input at every base 0..8
// @assumes sorted, non-overlapping, non-empty values
// @measured timeout after 3600 s, still in symbolic execution; kept off, not part of any claim
// @cut several streams (sums), values crossing a window boundary, the real window size
// @witness cover: a gap between the two values; the second value starts exactly at the window boundary
#[kani::proof]
#[kani::unwind(6)]
#[kani::stub(alloc::fmt::format, crate::verif_support::fake_format)]
fn c15_merge_many_one_stream() {
    let (a0s, a0e, a1s, a1e): (u32, u32, u32, u32) = (kani::any(), kani::any(), kani::any(), kani::any());
    kani::assume(a0s < a0e && a0e <= 4 && 4 <= a1s && a1s < a1e && a1e <= 8);
    let a = TwoVals { v: [Value { start: a0s, end: a0e, value: 1.0 }, Value { start: a1s, end: a1e, value: 2.0 }], n: 2, i: 0 };
    let mut srcs: Vec<TwoVals> = Vec::with_capacity(1);
    srcs.push(a);
    let mut it = merge_sections_many(srcs);
    let mut out: [(u32, u32, f32); 4] = [(0, 0, 0.0); 4];
    let mut n = 0usize;
    let mut done = false;
    let mut k = 0;
    while k < 4 {
        if !done {
            match it.next() {
                Some(Ok(v)) => { out[n] = (v.start, v.end, v.value); n += 1; }
                Some(Err(_)) => { assert!(false, "[no_error] error item from error-free inputs"); }
                None => { done = true; }
            }
        }
        k += 1;
    }
    assert!(done, "[terminates] more than 3 output values for 2 input values");
    assert!(n == 2, "[count] two separated input values must come out as two values");
    assert!(out[0].0 == a0s && out[0].1 == a0e && out[0].2 == 1.0, "[first] first value changed");
    assert!(out[1].0 == a1s && out[1].1 == a1e && out[1].2 == 2.0, "[second] second value changed (stale data from the previous window?)");
    let c1 = a0e < a1s;
    kani::cover!(c1, "gap between the values");
    let c2 = a1s == 4;
    kani::cover!(c2, "second value starts at the window boundary");
    core::mem::forget(it);
}
