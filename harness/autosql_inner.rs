// included INSIDE `pub mod parse { .. }` of bed/autosql.rs by a source substitution (so that the
// parser-internal items are visible); harness metadata lives in harness/autosql.rs
use super::*;
use super::parser::Parser;

fn truncated(schema: &'static [u8]) -> &'static str {
    let n: usize = kani::any();
    kani::assume(n <= schema.len());
    unsafe { core::str::from_utf8_unchecked(&schema[..n]) }
}

#[kani::proof]
#[kani::unwind(14)]
#[kani::stub(alloc::fmt::format, crate::verif_support::fake_format)]
fn c19_fieldtype_total_enum() {
    let s = truncated(b"enum(x,y) ");
    let mut p = Parser::of(s);
    let r = FieldType::try_parse(&mut p);
    let ok = r.is_ok();
    kani::cover!(ok, "some truncation parses");
    core::mem::forget(r);
}

#[kani::proof]
#[kani::unwind(14)]
#[kani::stub(alloc::fmt::format, crate::verif_support::fake_format)]
fn c19_fieldtype_total_set() {
    let s = truncated(b"set(a, b) ");
    let mut p = Parser::of(s);
    let r = FieldType::try_parse(&mut p);
    let ok = r.is_ok();
    kani::cover!(ok, "some truncation parses");
    core::mem::forget(r);
}
