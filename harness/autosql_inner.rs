// included INSIDE `pub mod parse { .. }` of bed/autosql.rs by a source substitution (so that the
// parser-internal items are visible); harness metadata lives in harness/autosql.rs
use super::*;
use super::parser::Parser;

fn truncated(schema: &'static [u8]) -> &'static str {
    let n: usize = kani::any();
    kani::assume(n <= schema.len());
    unsafe { core::str::from_utf8_unchecked(&schema[..n]) }
}

#[kani::proof]
#[kani::unwind(14)]
#[kani::stub(alloc::fmt::format, crate::verif_support::fake_format)]
fn c19_fieldtype_total_enum() {
    let s = truncated(b"enum(x,y) ");
    let mut p = Parser::of(s);
    let r = FieldType::try_parse(&mut p);
    let ok = r.is_ok();
    kani::cover!(ok, "some truncation parses");
    core::mem::forget(r);
}

#[kani::proof]
#[kani::unwind(14)]
#[kani::stub(alloc::fmt::format, crate::verif_support::fake_format)]
fn c19_fieldtype_total_set() {
    let s = truncated(b"set(a, b) ");
    let mut p = Parser::of(s);
    let r = FieldType::try_parse(&mut p);
    let ok = r.is_ok();
    kani::cover!(ok, "some truncation parses");
    core::mem::forget(r);
}

fn open_list(prefix: &'static [u8]) {
    // `enum(` / `set(` followed by exactly 2 symbolic characters from the delimiter alphabet, then end of
    // input. The LENGTH is concrete (a symbolic length makes every end-of-string test symbolic and drags the
    // Unicode tables of to_lowercase/is_alphanumeric into the formula); a trailing space is skipped by the
    // parser as whitespace, so shorter inputs are covered too.
    let mut buf = [b' '; 8];
    let pl = prefix.len();
    let mut i = 0;
    while i < pl {
        buf[i] = prefix[i];
        i += 1;
    }
    let (c0, c1): (u8, u8) = (kani::any(), kani::any());
    kani::assume(c0 < 6 && c1 < 6);
    let pick = |c: u8| -> u8 {
        if c == 0 { b'(' } else if c == 1 { b')' } else if c == 2 { b' ' } else if c == 3 { b',' } else if c == 4 { b';' } else { b'a' }
    };
    buf[pl] = pick(c0);
    buf[pl + 1] = pick(c1);
    let s = unsafe { core::str::from_utf8_unchecked(&buf[..pl + 2]) };
    let mut p = Parser::of(s);
    let r = FieldType::try_parse(&mut p);
    let ok = r.is_ok();
    kani::cover!(ok, "some input parses");
    core::mem::forget(r);
}

#[kani::proof]
#[kani::unwind(10)]
#[kani::stub(alloc::fmt::format, crate::verif_support::fake_format)]
fn c19_enum_list_terminates() {
    open_list(b"enum(");
}

#[kani::proof]
#[kani::unwind(10)]
#[kani::stub(alloc::fmt::format, crate::verif_support::fake_format)]
fn c19_set_list_terminates() {
    open_list(b"set(");
}

// input-free witnesses for the unterminated value list (D8): concrete text, no symbolic input
#[kani::proof]
#[kani::unwind(12)]
#[kani::stub(alloc::fmt::format, crate::verif_support::fake_format)]
fn c19_enum_unterminated_inputfree() {
    let mut p = Parser::of("enum(a");
    let r = FieldType::try_parse(&mut p);
    core::mem::forget(r);
}

#[kani::proof]
#[kani::unwind(12)]
#[kani::stub(alloc::fmt::format, crate::verif_support::fake_format)]
fn c19_set_unterminated_inputfree() {
    let mut p = Parser::of("set(");
    let r = FieldType::try_parse(&mut p);
    core::mem::forget(r);
}
