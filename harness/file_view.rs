use super::*;
use crate::verif_support::vfile;

/// reference: the byte range [a,b) "in isolation": a cursor clamped to [0, b-a]
struct Iso {
    len: u64,
    pos: u64,
}
impl Iso {
    fn seek(&mut self, whence: u8, k: i64) -> u64 {
        let base: i64 = match whence {
            0 => 0,
            1 => self.pos as i64,
            _ => self.len as i64,
        };
        let mut np = base + k;
        if np < 0 {
            np = 0;
        }
        if np > self.len as i64 {
            np = self.len as i64;
        }
        self.pos = np as u64;
        self.pos
    }
    fn read(&mut self, n: u64) -> (u64, u64) {
        let k = if n < self.len - self.pos { n } else { self.len - self.pos };
        let at = self.pos;
        self.pos += k;
        (at, k)
    }
}

fn one_op(view: &mut FileView, iso: &mut Iso, a: u64) {
    let op: u8 = kani::any();
    kani::assume(op < 4);
    if op == 3 {
        let n: usize = kani::any();
        kani::assume(n <= 4);
        let mut buf = [0u8; 4];
        let got = view.read(&mut buf[..n]);
        let (at, k) = iso.read(n as u64);
        let ok = match &got { Ok(g) => *g as u64 == k, Err(_) => false };
        core::mem::forget(got);
        assert!(ok, "[read_len] read returns a different number of bytes than the isolated range");
        // file byte i holds (i as u8) ^ 0x5a: the bytes read must be those of positions a+at..
        let mut i = 0;
        while i < 4 {
            if (i as u64) < k {
                assert!(buf[i] == vfile::pattern(a + at + i as u64), "[read_bytes] bytes differ from the isolated range");
            }
            i += 1;
        }
    } else {
        let k: i64 = kani::any();
        kani::assume(k >= -20 && k <= 20);
        let pos = match op {
            0 => {
                kani::assume(k >= 0);
                SeekFrom::Start(k as u64)
            }
            1 => SeekFrom::Current(k),
            _ => SeekFrom::End(k),
        };
        let got = view.seek(pos);
        let want = iso.seek(op, k);
        let ok = match &got { Ok(g) => *g == want, Err(_) => false };
        core::mem::forget(got);
        assert!(ok, "[seek_pos] seek returns a different position than the isolated range");
    }
}

// @harness c18_fileview_ops
// @props C18
// @tier quick
// @kind core
// @timeout 1200
// @mem 16
// @flags c-ffi
// @functions utils::file_view::FileView::{new, read, seek}; std::fs::File::{seek, read} over the C libc model
// @bounds file length 0..=12, any window 0 <= a <= b <= 14 (end beyond EOF is truncated), 2 operations each read(n<=4) or seek(Start|Current|End, -20..=20)
// @stubs C model verif_libc.c for lseek64/read (POSIX regular-file semantics)
// @assumes reference model = cursor clamped to [0, b-a] (seeks outside the window clamp, they never panic or fail)
// @cut I/O errors from the underlying file; offsets beyond 2^63
// @witness cover: End-relative seek before the window start with a > 0; read truncated at the window end
#[kani::proof]
#[kani::unwind(6)]
fn c18_fileview_ops() {
    let flen: i64 = kani::any();
    kani::assume(flen >= 0 && flen <= 12);
    let (a, b): (u64, u64) = (kani::any(), kani::any());
    kani::assume(a <= b && b <= 14 && a <= flen as u64);
    let file = vfile::make(flen);
    let r = FileView::new(file, a, b);
    let Ok(mut view) = r else {
        assert!(false, "[new] FileView::new failed");
        return;
    };
    let bb = if b < flen as u64 { b } else { flen as u64 };
    let mut iso = Iso { len: bb - a, pos: 0 };
    one_op(&mut view, &mut iso, a);
    one_op(&mut view, &mut iso, a);
    let c1 = a > 0;
    kani::cover!(c1, "window not starting at 0");
    let c2 = iso.pos == iso.len && iso.len > 0;
    kani::cover!(c2, "cursor at window end");
    core::mem::forget(view);
}

// @harness c18_fileview_ops3
// @props C18
// @tier thorough
// @kind stretch
// @timeout 3000
// @mem 24
// @flags c-ffi
// @functions as c18_fileview_ops
// @bounds as c18_fileview_ops with 3 operations
// @stubs as c18_fileview_ops
// @assumes as c18_fileview_ops
#[kani::proof]
#[kani::unwind(6)]
fn c18_fileview_ops3() {
    let flen: i64 = kani::any();
    kani::assume(flen >= 0 && flen <= 12);
    let (a, b): (u64, u64) = (kani::any(), kani::any());
    kani::assume(a <= b && b <= 14 && a <= flen as u64);
    let file = vfile::make(flen);
    let r = FileView::new(file, a, b);
    let Ok(mut view) = r else {
        assert!(false, "[new] FileView::new failed");
        return;
    };
    let bb = if b < flen as u64 { b } else { flen as u64 };
    let mut iso = Iso { len: bb - a, pos: 0 };
    one_op(&mut view, &mut iso, a);
    one_op(&mut view, &mut iso, a);
    one_op(&mut view, &mut iso, a);
    let c1 = a > 0;
    kani::cover!(c1, "window not starting at 0");
    core::mem::forget(view);
}
