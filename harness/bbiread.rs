use super::*;

// @harness c04_overlaps_key
// @props C04 C05 C10
// @tier quick
// @kind core
// @timeout 300
// @mem 8
// @functions bbiread::overlaps, bbiread::compare_position
// @bounds none: loop-free, all seven u32 arguments full width
// @witness cover: overlapping and non-overlapping both reachable
#[kani::proof]
fn c04_overlaps_key() {
    let (cq, qs, qe): (u32, u32, u32) = (kani::any(), kani::any(), kani::any());
    let (c1, s1, c2, e2): (u32, u32, u32, u32) = (kani::any(), kani::any(), kani::any(), kani::any());
    let got = overlaps(cq, qs, qe, c1, s1, c2, e2);
    // independent spec: positions are 64-bit keys chrom<<32|base; the block span [k1,k2] and the
    // query span [qs,qe] (both inclusive) intersect iff qstart <= k2 and qend >= k1
    let key = |c: u32, b: u32| ((c as u64) << 32) | (b as u64);
    let want = key(cq, qs) <= key(c2, e2) && key(cq, qe) >= key(c1, s1);
    assert!(got == want, "[overlaps_key] overlaps() differs from 64-bit key comparison");
    kani::cover!(got, "overlap reachable");
    kani::cover!(!got, "non-overlap reachable");
}

fn put32(v: &mut Vec<u8>, big: bool, x: u32) {
    let b = if big { x.to_be_bytes() } else { x.to_le_bytes() };
    v.extend_from_slice(&b);
}
fn put64(v: &mut Vec<u8>, big: bool, x: u64) {
    let b = if big { x.to_be_bytes() } else { x.to_le_bytes() };
    v.extend_from_slice(&b);
}
fn put16(v: &mut Vec<u8>, big: bool, x: u16) {
    let b = if big { x.to_be_bytes() } else { x.to_le_bytes() };
    v.extend_from_slice(&b);
}
fn endian(big: bool) -> Endianness {
    if big { Endianness::Big } else { Endianness::Little }
}

// @harness c10_leaf_item_decode
// @props C10
// @tier quick
// @kind core
// @timeout 600
// @mem 12
// @functions bbiread::CirTreeLeafItemIterator::next
// @bounds 2 leaf items (64 bytes), every field full width, byte order symbolic
// @witness cover: both byte orders
#[kani::proof]
#[kani::unwind(4)]
fn c10_leaf_item_decode() {
    let big: bool = kani::any();
    let (c1, s1, c2, e2): (u32, u32, u32, u32) = (kani::any(), kani::any(), kani::any(), kani::any());
    let (off, sz): (u64, u64) = (kani::any(), kani::any());
    let (c1b, s1b, c2b, e2b): (u32, u32, u32, u32) = (kani::any(), kani::any(), kani::any(), kani::any());
    let (offb, szb): (u64, u64) = (kani::any(), kani::any());
    let mut bytes: Vec<u8> = Vec::with_capacity(64);
    put32(&mut bytes, big, c1); put32(&mut bytes, big, s1); put32(&mut bytes, big, c2); put32(&mut bytes, big, e2);
    put64(&mut bytes, big, off); put64(&mut bytes, big, sz);
    put32(&mut bytes, big, c1b); put32(&mut bytes, big, s1b); put32(&mut bytes, big, c2b); put32(&mut bytes, big, e2b);
    put64(&mut bytes, big, offb); put64(&mut bytes, big, szb);
    let mut it = CirTreeLeafItemIterator { endianness: endian(big), i: 0, count: 2, bytes };
    let a = it.next();
    let b = it.next();
    let c = it.next();
    let ok_a = match a { Some(x) => x.start_chrom_ix == c1 && x.start_base == s1 && x.end_chrom_ix == c2 && x.end_base == e2 && x.data_offset == off && x.data_size == sz, None => false };
    let ok_b = match b { Some(x) => x.start_chrom_ix == c1b && x.start_base == s1b && x.end_chrom_ix == c2b && x.end_base == e2b && x.data_offset == offb && x.data_size == szb, None => false };
    assert!(ok_a, "[leaf0] first leaf item decoded wrongly");
    assert!(ok_b, "[leaf1] second leaf item decoded wrongly");
    assert!(c.is_none(), "[leaf_end] iterator yields more items than the node holds");
    kani::cover!(big, "big endian");
    kani::cover!(!big, "little endian");
    core::mem::forget(it);
}

// @harness c10_nonleaf_item_decode
// @props C10
// @tier quick
// @kind core
// @timeout 600
// @mem 12
// @functions bbiread::CirTreeNonLeafItemsIterator::next
// @bounds 2 non-leaf items (48 bytes), every field full width, byte order symbolic
// @witness cover: both byte orders
#[kani::proof]
#[kani::unwind(4)]
fn c10_nonleaf_item_decode() {
    let big: bool = kani::any();
    let (c1, s1, c2, e2): (u32, u32, u32, u32) = (kani::any(), kani::any(), kani::any(), kani::any());
    let off: u64 = kani::any();
    let (c1b, s1b, c2b, e2b): (u32, u32, u32, u32) = (kani::any(), kani::any(), kani::any(), kani::any());
    let offb: u64 = kani::any();
    let mut bytes: Vec<u8> = Vec::with_capacity(48);
    put32(&mut bytes, big, c1); put32(&mut bytes, big, s1); put32(&mut bytes, big, c2); put32(&mut bytes, big, e2);
    put64(&mut bytes, big, off);
    put32(&mut bytes, big, c1b); put32(&mut bytes, big, s1b); put32(&mut bytes, big, c2b); put32(&mut bytes, big, e2b);
    put64(&mut bytes, big, offb);
    let mut it = CirTreeNonLeafItemsIterator { endianness: endian(big), i: 0, count: 2, bytes };
    let a = it.next();
    let b = it.next();
    let c = it.next();
    let ok_a = match a { Some(x) => x.start_chrom_ix == c1 && x.start_base == s1 && x.end_chrom_ix == c2 && x.end_base == e2 && x.node_offset == off, None => false };
    let ok_b = match b { Some(x) => x.start_chrom_ix == c1b && x.start_base == s1b && x.end_chrom_ix == c2b && x.end_base == e2b && x.node_offset == offb, None => false };
    assert!(ok_a, "[nonleaf0] first non-leaf item decoded wrongly");
    assert!(ok_b, "[nonleaf1] second non-leaf item decoded wrongly (24-byte stride)");
    assert!(c.is_none(), "[nonleaf_end] iterator yields more items than the node holds");
    kani::cover!(big, "big endian");
    kani::cover!(!big, "little endian");
    core::mem::forget(it);
}

fn key(c: u32, b: u32) -> u64 { ((c as u64) << 32) | (b as u64) }

// @harness c04_nodes_overlapping_leaf
// @props C04 C05 C10
// @tier quick
// @kind core
// @timeout 600
// @mem 12
// @functions bbiread::nodes_overlapping (Leaf arm, instantiated with array iterators), bbiread::overlaps
// @bounds 2 leaf children with arbitrary spans/offsets (full width), arbitrary query. (3 children: the SmallVec inline/heap union with a symbolic length exceeds 40 GB in propositional reduction - measured - so the claim is per pair of adjacent children)
// @witness cover: both selected; none selected; only the second selected
#[kani::proof]
#[kani::unwind(4)]
fn c04_nodes_overlapping_leaf() {
    let (q, qs, qe): (u32, u32, u32) = (kani::any(), kani::any(), kani::any());
    let mk = || CirTreeNodeLeaf { start_chrom_ix: kani::any(), start_base: kani::any(), end_chrom_ix: kani::any(), end_base: kani::any(), data_offset: kani::any(), data_size: kani::any() };
    let (l0, l1) = (mk(), mk());
    let want = |l: &CirTreeNodeLeaf| key(q, qs) <= key(l.end_chrom_ix, l.end_base) && key(q, qe) >= key(l.start_chrom_ix, l.start_base);
    let (w0, w1) = (want(&l0), want(&l1));
    let iter: CirTreeNodeIterator<core::array::IntoIter<CirTreeNodeLeaf, 2>, core::iter::Empty<CirTreeNodeNonLeaf>> =
        CirTreeNodeIterator::Leaf([l0, l1].into_iter());
    let (children, blocks) = nodes_overlapping(iter, q, qs, qe);
    assert!(children.is_empty(), "[leaf_no_children] a leaf node yields child nodes");
    let n = (w0 as usize) + (w1 as usize);
    assert!(blocks.len() == n, "[leaf_count] number of selected blocks differs from the overlap spec");
    let mut k = 0;
    if w0 { assert!(blocks[k].offset == l0.data_offset && blocks[k].size == l0.data_size, "[leaf_sel0] wrong block or order"); k += 1; }
    if w1 { assert!(blocks[k].offset == l1.data_offset && blocks[k].size == l1.data_size, "[leaf_sel1] wrong block or order"); k += 1; }
    let c1 = w0 & w1;
    kani::cover!(c1, "both selected");
    kani::cover!(n == 0, "none selected");
    let c3 = !w0 & w1;
    kani::cover!(c3, "only the second selected");
}

// @harness c04_nodes_overlapping_nonleaf
// @props C04 C05 C10
// @tier quick
// @kind core
// @timeout 600
// @mem 12
// @functions bbiread::nodes_overlapping (NonLeaf arm, instantiated with array iterators), bbiread::overlaps
// @bounds 2 non-leaf children with arbitrary spans/offsets (full width), arbitrary query (see c04_nodes_overlapping_leaf for why 2)
// @witness cover: both selected; none selected
#[kani::proof]
#[kani::unwind(4)]
fn c04_nodes_overlapping_nonleaf() {
    let (q, qs, qe): (u32, u32, u32) = (kani::any(), kani::any(), kani::any());
    let mk = || CirTreeNodeNonLeaf { start_chrom_ix: kani::any(), start_base: kani::any(), end_chrom_ix: kani::any(), end_base: kani::any(), node_offset: kani::any() };
    let (l0, l1) = (mk(), mk());
    let want = |l: &CirTreeNodeNonLeaf| key(q, qs) <= key(l.end_chrom_ix, l.end_base) && key(q, qe) >= key(l.start_chrom_ix, l.start_base);
    let (w0, w1) = (want(&l0), want(&l1));
    let iter: CirTreeNodeIterator<core::iter::Empty<CirTreeNodeLeaf>, core::array::IntoIter<CirTreeNodeNonLeaf, 2>> =
        CirTreeNodeIterator::NonLeaf([l0, l1].into_iter());
    let (children, blocks) = nodes_overlapping(iter, q, qs, qe);
    assert!(blocks.is_empty(), "[nonleaf_no_blocks] a non-leaf node yields data blocks");
    let n = (w0 as usize) + (w1 as usize);
    assert!(children.len() == n, "[nonleaf_count] number of selected children differs from the overlap spec");
    let mut k = 0;
    if w0 { assert!(children[k] == l0.node_offset, "[nonleaf_sel0] wrong child or order"); k += 1; }
    if w1 { assert!(children[k] == l1.node_offset, "[nonleaf_sel1] wrong child or order"); k += 1; }
    let c1 = w0 & w1;
    kani::cover!(c1, "both selected");
    kani::cover!(n == 0, "none selected");
}

// @harness c10_read_node_nonleaf_last_in_file
// @props C10
// @tier quick
// @kind core
// @timeout 900
// @mem 16
// @functions bbiread::read_node, bbiread::cir_tree_non_leaf_items, CirTreeNonLeafItemsIterator::next (over std::io::Cursor<Vec<u8>>)
// @bounds a non-leaf index node with 2 children (4+48 bytes) that is the LAST thing in the file (node placement is free in the format); fields full width; byte order symbolic
// @stubs alloc::fmt::format -> empty string
// @witness cover: both byte orders
#[kani::proof]
#[kani::unwind(5)]
#[kani::stub(alloc::fmt::format, crate::verif_support::fake_format)]
fn c10_read_node_nonleaf_last_in_file() {
    let big: bool = kani::any();
    let (c1, s1, c2, e2): (u32, u32, u32, u32) = (kani::any(), kani::any(), kani::any(), kani::any());
    let off: u64 = kani::any();
    let (c1b, s1b, c2b, e2b): (u32, u32, u32, u32) = (kani::any(), kani::any(), kani::any(), kani::any());
    let offb: u64 = kani::any();
    let mut bytes: Vec<u8> = Vec::with_capacity(52);
    bytes.push(0); // isLeaf = 0
    bytes.push(0); // reserved
    put16(&mut bytes, big, 2);
    put32(&mut bytes, big, c1); put32(&mut bytes, big, s1); put32(&mut bytes, big, c2); put32(&mut bytes, big, e2);
    put64(&mut bytes, big, off);
    put32(&mut bytes, big, c1b); put32(&mut bytes, big, s1b); put32(&mut bytes, big, c2b); put32(&mut bytes, big, e2b);
    put64(&mut bytes, big, offb);
    let mut cur = std::io::Cursor::new(bytes);
    let r = read_node(&mut cur, 0, endian(big));
    let (ok, a, b, c) = match r {
        Ok(CirTreeNodeIterator::NonLeaf(mut it)) => {
            let a = it.next();
            let b = it.next();
            let c = it.next();
            core::mem::forget(it);
            (1u8, a, b, c)
        }
        Ok(CirTreeNodeIterator::Leaf(it)) => { core::mem::forget(it); (2u8, None, None, None) }
        Err(e) => { core::mem::forget(e); (0u8, None, None, None) }
    };
    assert!(ok != 0, "[node_read] a well-formed non-leaf node at the end of the file cannot be read (over-read)");
    assert!(ok == 1, "[node_kind] non-leaf node decoded as leaf");
    let ok_a = match a { Some(x) => x.start_chrom_ix == c1 && x.start_base == s1 && x.end_chrom_ix == c2 && x.end_base == e2 && x.node_offset == off, None => false };
    let ok_b = match b { Some(x) => x.start_chrom_ix == c1b && x.start_base == s1b && x.end_chrom_ix == c2b && x.end_base == e2b && x.node_offset == offb, None => false };
    assert!(ok_a && ok_b && c.is_none(), "[node_items] non-leaf children decoded wrongly");
    kani::cover!(big, "big endian");
    kani::cover!(!big, "little endian");
    core::mem::forget(cur);
}
