use super::*;

// @harness c04_overlaps_key
// @props C04 C05 C10
// @tier quick
// @kind core
// @timeout 300
// @mem 8
// @functions bbiread::overlaps, bbiread::compare_position
// @bounds none: loop-free, all seven u32 arguments full width
// @witness cover: overlapping and non-overlapping both reachable
#[kani::proof]
fn c04_overlaps_key() {
    let (cq, qs, qe): (u32, u32, u32) = (kani::any(), kani::any(), kani::any());
    let (c1, s1, c2, e2): (u32, u32, u32, u32) = (kani::any(), kani::any(), kani::any(), kani::any());
    let got = overlaps(cq, qs, qe, c1, s1, c2, e2);
    // independent spec: positions are 64-bit keys chrom<<32|base; the block span [k1,k2] and the
    // query span [qs,qe] (both inclusive) intersect iff qstart <= k2 and qend >= k1
    let key = |c: u32, b: u32| ((c as u64) << 32) | (b as u64);
    let want = key(cq, qs) <= key(c2, e2) && key(cq, qe) >= key(c1, s1);
    assert!(got == want, "[overlaps_key] overlaps() differs from 64-bit key comparison");
    kani::cover!(got, "overlap reachable");
    kani::cover!(!got, "non-overlap reachable");
}
