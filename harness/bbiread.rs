use super::*;

// @harness c04_overlaps_key
// @props C04 C05 C10
// @tier quick
// @kind core
// @timeout 300
// @mem 8
// @functions bbiread::overlaps, bbiread::compare_position
// @bounds none: loop-free, all seven u32 arguments full width
// @witness cover: overlapping and non-overlapping both reachable
#[kani::proof]
fn c04_overlaps_key() {
    let (cq, qs, qe): (u32, u32, u32) = (kani::any(), kani::any(), kani::any());
    let (c1, s1, c2, e2): (u32, u32, u32, u32) = (kani::any(), kani::any(), kani::any(), kani::any());
    let got = overlaps(cq, qs, qe, c1, s1, c2, e2);
    // independent spec: positions are 64-bit keys chrom<<32|base; the block span [k1,k2] and the
    // query span [qs,qe] (both inclusive) intersect iff qstart <= k2 and qend >= k1
    let key = |c: u32, b: u32| ((c as u64) << 32) | (b as u64);
    let want = key(cq, qs) <= key(c2, e2) && key(cq, qe) >= key(c1, s1);
    assert!(got == want, "[overlaps_key] overlaps() differs from 64-bit key comparison");
    kani::cover!(got, "overlap reachable");
    kani::cover!(!got, "non-overlap reachable");
}

fn put32(v: &mut Vec<u8>, big: bool, x: u32) {
    // pushes, not extend_from_slice: a memcpy into the buffer makes every byte of it opaque to constant propagation
    let b = if big { x.to_be_bytes() } else { x.to_le_bytes() };
    v.push(b[0]); v.push(b[1]); v.push(b[2]); v.push(b[3]);
}
fn put64(v: &mut Vec<u8>, big: bool, x: u64) {
    // pushes, not extend_from_slice: a memcpy into the buffer makes every byte of it opaque to constant propagation
    let b = if big { x.to_be_bytes() } else { x.to_le_bytes() };
    v.push(b[0]); v.push(b[1]); v.push(b[2]); v.push(b[3]); v.push(b[4]); v.push(b[5]); v.push(b[6]); v.push(b[7]);
}
fn put16(v: &mut Vec<u8>, big: bool, x: u16) {
    // pushes, not extend_from_slice: a memcpy into the buffer makes every byte of it opaque to constant propagation
    let b = if big { x.to_be_bytes() } else { x.to_le_bytes() };
    v.push(b[0]); v.push(b[1]);
}
fn endian(big: bool) -> Endianness {
    if big { Endianness::Big } else { Endianness::Little }
}

// @harness c10_leaf_item_decode
// @props C10
// @tier quick
// @kind core
// @timeout 600
// @mem 12
// @functions bbiread::CirTreeLeafItemIterator::next
// @bounds 2 leaf items (64 bytes), every field full width, byte order symbolic
// @witness cover: both byte orders
#[kani::proof]
#[kani::unwind(4)]
fn c10_leaf_item_decode() {
    let big: bool = kani::any();
    let (c1, s1, c2, e2): (u32, u32, u32, u32) = (kani::any(), kani::any(), kani::any(), kani::any());
    let (off, sz): (u64, u64) = (kani::any(), kani::any());
    let (c1b, s1b, c2b, e2b): (u32, u32, u32, u32) = (kani::any(), kani::any(), kani::any(), kani::any());
    let (offb, szb): (u64, u64) = (kani::any(), kani::any());
    let mut bytes: Vec<u8> = Vec::with_capacity(64);
    put32(&mut bytes, big, c1); put32(&mut bytes, big, s1); put32(&mut bytes, big, c2); put32(&mut bytes, big, e2);
    put64(&mut bytes, big, off); put64(&mut bytes, big, sz);
    put32(&mut bytes, big, c1b); put32(&mut bytes, big, s1b); put32(&mut bytes, big, c2b); put32(&mut bytes, big, e2b);
    put64(&mut bytes, big, offb); put64(&mut bytes, big, szb);
    let mut it = CirTreeLeafItemIterator { endianness: endian(big), i: 0, count: 2, bytes };
    let a = it.next();
    let b = it.next();
    let c = it.next();
    let ok_a = match a { Some(x) => x.start_chrom_ix == c1 && x.start_base == s1 && x.end_chrom_ix == c2 && x.end_base == e2 && x.data_offset == off && x.data_size == sz, None => false };
    let ok_b = match b { Some(x) => x.start_chrom_ix == c1b && x.start_base == s1b && x.end_chrom_ix == c2b && x.end_base == e2b && x.data_offset == offb && x.data_size == szb, None => false };
    assert!(ok_a, "[leaf0] first leaf item decoded wrongly");
    assert!(ok_b, "[leaf1] second leaf item decoded wrongly");
    assert!(c.is_none(), "[leaf_end] iterator yields more items than the node holds");
    kani::cover!(big, "big endian");
    kani::cover!(!big, "little endian");
    core::mem::forget(it);
}

// @harness c10_nonleaf_item_decode
// @props C10
// @tier quick
// @kind core
// @timeout 600
// @mem 12
// @functions bbiread::CirTreeNonLeafItemsIterator::next
// @bounds 2 non-leaf items (48 bytes), every field full width, byte order symbolic
// @witness cover: both byte orders
#[kani::proof]
#[kani::unwind(4)]
fn c10_nonleaf_item_decode() {
    let big: bool = kani::any();
    let (c1, s1, c2, e2): (u32, u32, u32, u32) = (kani::any(), kani::any(), kani::any(), kani::any());
    let off: u64 = kani::any();
    let (c1b, s1b, c2b, e2b): (u32, u32, u32, u32) = (kani::any(), kani::any(), kani::any(), kani::any());
    let offb: u64 = kani::any();
    let mut bytes: Vec<u8> = Vec::with_capacity(48);
    put32(&mut bytes, big, c1); put32(&mut bytes, big, s1); put32(&mut bytes, big, c2); put32(&mut bytes, big, e2);
    put64(&mut bytes, big, off);
    put32(&mut bytes, big, c1b); put32(&mut bytes, big, s1b); put32(&mut bytes, big, c2b); put32(&mut bytes, big, e2b);
    put64(&mut bytes, big, offb);
    let mut it = CirTreeNonLeafItemsIterator { endianness: endian(big), i: 0, count: 2, bytes };
    let a = it.next();
    let b = it.next();
    let c = it.next();
    let ok_a = match a { Some(x) => x.start_chrom_ix == c1 && x.start_base == s1 && x.end_chrom_ix == c2 && x.end_base == e2 && x.node_offset == off, None => false };
    let ok_b = match b { Some(x) => x.start_chrom_ix == c1b && x.start_base == s1b && x.end_chrom_ix == c2b && x.end_base == e2b && x.node_offset == offb, None => false };
    assert!(ok_a, "[nonleaf0] first non-leaf item decoded wrongly");
    assert!(ok_b, "[nonleaf1] second non-leaf item decoded wrongly (24-byte stride)");
    assert!(c.is_none(), "[nonleaf_end] iterator yields more items than the node holds");
    kani::cover!(big, "big endian");
    kani::cover!(!big, "little endian");
    core::mem::forget(it);
}

fn key(c: u32, b: u32) -> u64 { ((c as u64) << 32) | (b as u64) }

// @harness c04_nodes_overlapping_leaf
// @props C04 C05 C10
// @tier quick
// @kind core
// @timeout 600
// @mem 12
// @functions bbiread::nodes_overlapping (Leaf arm, array iterators), bbiread::overlaps
// @bounds 3 leaf children with arbitrary spans/offsets (full width), arbitrary query
// @stubs smallvec::SmallVec::push -> push within the inline capacity of 4 (asserted)
// @witness cover: first and third selected, middle one not; all selected; none selected
#[kani::proof]
#[kani::unwind(5)]
#[kani::stub(SmallVec::push, crate::verif_support::smallvec_push_inline)]
fn c04_nodes_overlapping_leaf() {
    let (q, qs, qe): (u32, u32, u32) = (kani::any(), kani::any(), kani::any());
    let mk = || CirTreeNodeLeaf { start_chrom_ix: kani::any(), start_base: kani::any(), end_chrom_ix: kani::any(), end_base: kani::any(), data_offset: kani::any(), data_size: kani::any() };
    let (l0, l1, l2) = (mk(), mk(), mk());
    let want = |l: &CirTreeNodeLeaf| key(q, qs) <= key(l.end_chrom_ix, l.end_base) && key(q, qe) >= key(l.start_chrom_ix, l.start_base);
    let (w0, w1, w2) = (want(&l0), want(&l1), want(&l2));
    let iter: CirTreeNodeIterator<core::array::IntoIter<CirTreeNodeLeaf, 3>, core::iter::Empty<CirTreeNodeNonLeaf>> =
        CirTreeNodeIterator::Leaf([l0, l1, l2].into_iter());
    let (children, blocks) = nodes_overlapping(iter, q, qs, qe);
    assert!(children.is_empty(), "[leaf_no_children] a leaf node yields child nodes");
    let n = (w0 as usize) + (w1 as usize) + (w2 as usize);
    assert!(blocks.len() == n, "[leaf_count] number of selected blocks differs from the overlap spec");
    let mut k = 0;
    if w0 { assert!(blocks[k].offset == l0.data_offset && blocks[k].size == l0.data_size, "[leaf_sel0] wrong block or order"); k += 1; }
    if w1 { assert!(blocks[k].offset == l1.data_offset && blocks[k].size == l1.data_size, "[leaf_sel1] wrong block or order"); k += 1; }
    if w2 { assert!(blocks[k].offset == l2.data_offset && blocks[k].size == l2.data_size, "[leaf_sel2] wrong block or order"); k += 1; }
    let c1 = w0 & !w1 & w2;
    kani::cover!(c1, "first and third selected, middle not");
    let c2 = w0 & w1 & w2;
    kani::cover!(c2, "all selected");
    kani::cover!(n == 0, "none selected");
}

// @harness c04_nodes_overlapping_nonleaf
// @props C04 C05 C10
// @tier quick
// @kind core
// @timeout 600
// @mem 12
// @functions bbiread::nodes_overlapping (NonLeaf arm, array iterators), bbiread::overlaps
// @bounds 3 non-leaf children with arbitrary spans/offsets (full width), arbitrary query
// @stubs smallvec::SmallVec::push -> push within the inline capacity of 4 (asserted)
// @witness cover: first and third selected, middle one not; all selected; none selected
#[kani::proof]
#[kani::unwind(5)]
#[kani::stub(SmallVec::push, crate::verif_support::smallvec_push_inline)]
fn c04_nodes_overlapping_nonleaf() {
    let (q, qs, qe): (u32, u32, u32) = (kani::any(), kani::any(), kani::any());
    let mk = || CirTreeNodeNonLeaf { start_chrom_ix: kani::any(), start_base: kani::any(), end_chrom_ix: kani::any(), end_base: kani::any(), node_offset: kani::any() };
    let (l0, l1, l2) = (mk(), mk(), mk());
    let want = |l: &CirTreeNodeNonLeaf| key(q, qs) <= key(l.end_chrom_ix, l.end_base) && key(q, qe) >= key(l.start_chrom_ix, l.start_base);
    let (w0, w1, w2) = (want(&l0), want(&l1), want(&l2));
    let iter: CirTreeNodeIterator<core::iter::Empty<CirTreeNodeLeaf>, core::array::IntoIter<CirTreeNodeNonLeaf, 3>> =
        CirTreeNodeIterator::NonLeaf([l0, l1, l2].into_iter());
    let (children, blocks) = nodes_overlapping(iter, q, qs, qe);
    assert!(blocks.is_empty(), "[nonleaf_no_blocks] a non-leaf node yields data blocks");
    let n = (w0 as usize) + (w1 as usize) + (w2 as usize);
    assert!(children.len() == n, "[nonleaf_count] number of selected children differs from the overlap spec");
    let mut k = 0;
    if w0 { assert!(children[k] == l0.node_offset, "[nonleaf_sel0] wrong child or order"); k += 1; }
    if w1 { assert!(children[k] == l1.node_offset, "[nonleaf_sel1] wrong child or order"); k += 1; }
    if w2 { assert!(children[k] == l2.node_offset, "[nonleaf_sel2] wrong child or order"); k += 1; }
    let c1 = w0 & !w1 & w2;
    kani::cover!(c1, "first and third selected, middle not");
    let c2 = w0 & w1 & w2;
    kani::cover!(c2, "all selected");
    kani::cover!(n == 0, "none selected");
}

// @harness c10_read_node_nonleaf_last_in_file
// @props C10
// @tier quick
// @kind core
// @timeout 900
// @mem 16
// @functions bbiread::read_node, bbiread::cir_tree_non_leaf_items, CirTreeNonLeafItemsIterator::next (over std::io::Cursor<Vec<u8>>)
// @bounds a non-leaf index node with 2 children (4+48 bytes) that is the LAST thing in the file (node placement is free in the format); fields full width; byte order symbolic
// @stubs alloc::fmt::format -> empty string
// @witness cover: both byte orders
#[kani::proof]
#[kani::unwind(5)]
#[kani::stub(alloc::fmt::format, crate::verif_support::fake_format)]
fn c10_read_node_nonleaf_last_in_file() {
    let big: bool = kani::any();
    let (c1, s1, c2, e2): (u32, u32, u32, u32) = (kani::any(), kani::any(), kani::any(), kani::any());
    let off: u64 = kani::any();
    let (c1b, s1b, c2b, e2b): (u32, u32, u32, u32) = (kani::any(), kani::any(), kani::any(), kani::any());
    let offb: u64 = kani::any();
    let mut bytes: Vec<u8> = Vec::with_capacity(52);
    bytes.push(0); // isLeaf = 0
    bytes.push(0); // reserved
    put16(&mut bytes, big, 2);
    put32(&mut bytes, big, c1); put32(&mut bytes, big, s1); put32(&mut bytes, big, c2); put32(&mut bytes, big, e2);
    put64(&mut bytes, big, off);
    put32(&mut bytes, big, c1b); put32(&mut bytes, big, s1b); put32(&mut bytes, big, c2b); put32(&mut bytes, big, e2b);
    put64(&mut bytes, big, offb);
    let mut cur = std::io::Cursor::new(bytes);
    let r = read_node(&mut cur, 0, endian(big));
    let (ok, a, b, c) = match r {
        Ok(CirTreeNodeIterator::NonLeaf(mut it)) => {
            let a = it.next();
            let b = it.next();
            let c = it.next();
            core::mem::forget(it);
            (1u8, a, b, c)
        }
        Ok(CirTreeNodeIterator::Leaf(it)) => { core::mem::forget(it); (2u8, None, None, None) }
        Err(e) => { core::mem::forget(e); (0u8, None, None, None) }
    };
    assert!(ok != 0, "[node_read] a well-formed non-leaf node at the end of the file cannot be read (over-read)");
    assert!(ok == 1, "[node_kind] non-leaf node decoded as leaf");
    let ok_a = match a { Some(x) => x.start_chrom_ix == c1 && x.start_base == s1 && x.end_chrom_ix == c2 && x.end_base == e2 && x.node_offset == off, None => false };
    let ok_b = match b { Some(x) => x.start_chrom_ix == c1b && x.start_base == s1b && x.end_chrom_ix == c2b && x.end_base == e2b && x.node_offset == offb, None => false };
    assert!(ok_a && ok_b && c.is_none(), "[node_items] non-leaf children decoded wrongly");
    kani::cover!(big, "big endian");
    kani::cover!(!big, "little endian");
    core::mem::forget(cur);
}

fn put_leaf(v: &mut Vec<u8>, big: bool, c1: u32, s: u32, c2: u32, e: u32, off: u64, sz: u64) {
    put32(v, big, c1); put32(v, big, s); put32(v, big, c2); put32(v, big, e); put64(v, big, off); put64(v, big, sz);
}
fn put_nonleaf(v: &mut Vec<u8>, big: bool, c1: u32, s: u32, c2: u32, e: u32, child: u64) {
    put32(v, big, c1); put32(v, big, s); put32(v, big, c2); put32(v, big, e); put64(v, big, child);
}

// @harness c05_search_2level_first_leaf
// @fs 16384
// @props C05 C03
// @tier quick
// @kind core
// @timeout 2400
// @mem 24
// @rss 10
// @sub src/bbi/bbiread.rs ::: use bytes::{Buf, BytesMut}; ::: use crate::verif_support::bbuf::BytesMut;
// @functions bbiread::{search_cir_tree_inner, CirTreeBlockSearchIter::next, read_node, cir_tree_leaf_items, cir_tree_non_leaf_items, nodes_overlapping, overlaps} over an in-memory file (ScriptedFile: byte-loop Read + Seek; its blocks_for_cir_tree_node is the blanket impl's body with the requested node offset asserted against the pre-order visit script, see the type's comment); bytes::BytesMut (node header) replaced by the model verif_support::bbuf
// @bounds an independently encoded 2-level index: root with 2 children, leaves with 2 and 1 blocks, nodes placed out of order in the file (second leaf, then root, then first leaf; root NOT first), little-endian. The recorded child spans and the query are CONCRETE (which children are visited is then decided during symbolic execution - with a symbolic descent the node offset, hence every count and size read from the file, becomes symbolic: 4 M steps, out of memory); the three block spans are symbolic inside their child's span. This instance: query chr0:[10,20], only the first leaf overlaps
// @stubs alloc::fmt::format -> empty; SmallVec::push -> within inline capacity (asserted); Vec::reserve -> the empty result vector's first growth allocates 4 slots, any other growth is a failed check
// @assumes well-formed index: each recorded child span contains the blocks beneath it
// @cut symbolic descent decisions (covered per node by c04_nodes_overlapping_*), deeper trees and wider nodes; zlib is not involved in the index
// @witness cover: exactly one block returned; both blocks of the leaf returned
#[kani::proof]
#[kani::unwind(12)]
#[kani::stub(alloc::fmt::format, crate::verif_support::fake_format)]
#[kani::stub(alloc::vec::Vec::reserve, crate::verif_support::reserve_first_four)]
#[kani::stub(SmallVec::push, crate::verif_support::smallvec_push_inline)]
fn c05_search_2level_first_leaf() {
    search_handbuilt(false, 0);
}

// @harness c05_search_2level_second_leaf
// @fs 16384
// @props C05
// @tier quick
// @kind core
// @timeout 2400
// @mem 24
// @rss 10
// @sub src/bbi/bbiread.rs ::: use bytes::{Buf, BytesMut}; ::: use crate::verif_support::bbuf::BytesMut;
// @functions as c05_search_2level_first_leaf
// @bounds as c05_search_2level_first_leaf; this instance: query chr1:[10,20], only the second leaf (placed FIRST in the file) overlaps
// @stubs as c05_search_2level_first_leaf
// @assumes as c05_search_2level_first_leaf
// @witness cover: the block is returned; it is not
#[kani::proof]
#[kani::unwind(12)]
#[kani::stub(alloc::fmt::format, crate::verif_support::fake_format)]
#[kani::stub(alloc::vec::Vec::reserve, crate::verif_support::reserve_first_four)]
#[kani::stub(SmallVec::push, crate::verif_support::smallvec_push_inline)]
fn c05_search_2level_second_leaf() {
    search_handbuilt(false, 1);
}

// @harness c05_search_2level_both_leaves
// @fs 16384
// @props C05 C04
// @tier thorough
// @kind core
// @timeout 2400
// @mem 24
// @rss 10
// @sub src/bbi/bbiread.rs ::: use bytes::{Buf, BytesMut}; ::: use crate::verif_support::bbuf::BytesMut;
// @functions as c05_search_2level_first_leaf
// @bounds as c05_search_2level_first_leaf; this instance: the first child spans chr0:0 .. chr1:15, the second chr1:12 .. chr1:50, query chr1:[10,20]: both leaves are visited
// @stubs as c05_search_2level_first_leaf
// @assumes as c05_search_2level_first_leaf
// @witness cover: blocks from both leaves returned, in file order of the index
#[kani::proof]
#[kani::unwind(12)]
#[kani::stub(alloc::fmt::format, crate::verif_support::fake_format)]
#[kani::stub(alloc::vec::Vec::reserve, crate::verif_support::reserve_first_four)]
#[kani::stub(SmallVec::push, crate::verif_support::smallvec_push_inline)]
fn c05_search_2level_both_leaves() {
    search_handbuilt(false, 2);
}

// @harness c05_search_be_2level_both_leaves
// @fs 16384
// @props C05 C10
// @tier thorough
// @kind stretch
// @timeout 2400
// @mem 24
// @rss 10
// @sub src/bbi/bbiread.rs ::: use bytes::{Buf, BytesMut}; ::: use crate::verif_support::bbuf::BytesMut;
// @functions as c05_search_2level_both_leaves, big-endian file
// @bounds as c05_search_2level_both_leaves
// @stubs as c05_search_2level_first_leaf
// @assumes as c05_search_2level_first_leaf
// @witness cover: blocks from both leaves returned
#[kani::proof]
#[kani::unwind(12)]
#[kani::stub(alloc::fmt::format, crate::verif_support::fake_format)]
#[kani::stub(alloc::vec::Vec::reserve, crate::verif_support::reserve_first_four)]
#[kani::stub(SmallVec::push, crate::verif_support::smallvec_push_inline)]
fn c05_search_be_2level_both_leaves() {
    search_handbuilt(true, 2);
}

/// In-memory file for the whole-index search harnesses. `blocks_for_cir_tree_node` is the blanket impl's body
/// (read_node + nodes_overlapping, both real) with one addition: the node offset the search asks for is
/// ASSERTED equal to the next entry of a visit script and the script's constant is used for the seek. Reason: the
/// offset travels through `io::Result<(SmallVec, SmallVec)>`, a niche-encoded enum that Kani lowers to a C union
/// nested around SmallVec's own unions; CBMC does not constant-propagate through that, and a seek to an opaque
/// offset makes every count and size read from the file symbolic (4 M steps, out of memory). The assertion keeps
/// this sound: the solver proves the requested offset is the scripted one. The script is the pre-order visit of
/// the overlapping children (what the search does today); it is not part of the property, so the assertion is
/// compiled out of the native replay - a different but correct traversal order then shows up as
/// "not reproduced" (inconclusive), not as a violation.
pub struct ScriptedFile {
    pub cur: crate::verif_support::LoopCursor,
    pub script: [u64; 4],
    pub k: usize,
    /// the single data block of the end-to-end harnesses (offset, size); (0, 0) = no block expected
    pub block: (u64, u64),
    pub block_reads: usize,
}
impl BBIFileRead for ScriptedFile {
    type Reader = crate::verif_support::LoopCursor;
    fn get_block_data(&mut self, info: &BBIFileInfo, block: &Block) -> io::Result<Vec<u8>> {
        // same assert-then-use-the-constant treatment for the (single) data block's offset and size
        #[cfg(not(verif_replay))]
        let b = {
            assert!(block.offset == self.block.0 && block.size == self.block.1, "[block_script] the reader asked for a data block other than the one the index points to");
            Block { offset: self.block.0, size: self.block.1 }
        };
        #[cfg(verif_replay)]
        let b = Block { offset: block.offset, size: block.size };
        self.block_reads += 1;
        read_block_data(info, &mut self.cur, &b)
    }
    fn blocks_for_cir_tree_node(&mut self, endianness: Endianness, node_offset: u64, chrom_ix: u32, start: u32, end: u32) -> io::Result<(SmallVec<[u64; 4]>, SmallVec<[Block; 4]>)> {
        #[cfg(not(verif_replay))]
        let off = {
            assert!(self.k < 4, "[script] more nodes visited than the index has on the query's path");
            let expected = self.script[self.k];
            assert!(node_offset == expected, "[script] the search asked for a node offset other than the next one of the pre-order visit");
            expected
        };
        #[cfg(verif_replay)]
        let off = node_offset;
        self.k += 1;
        let iter = match read_node(&mut self.cur, off, endianness) {
            Ok(d) => d,
            Err(e) => return Err(e),
        };
        Ok(nodes_overlapping(iter, chrom_ix, start, end))
    }
    fn raw_reader(&mut self) -> &mut Self::Reader {
        &mut self.cur
    }
}

fn search_handbuilt(big: bool, mode: u8) {
    // concrete: block chromosomes, recorded child spans, query (see @bounds); symbolic: the block spans
    // (A: first child with blocks A0, A1; B: second child with block B0)
    let (ca0, ca1, cb0): (u32, u32, u32) = if mode == 2 { (0, 1, 1) } else { (0, 0, 1) };
    let (a1c, a1s, a2c, a2e): (u32, u32, u32, u32) = if mode == 2 { (0, 0, 1, 15) } else { (0, 0, 0, 100) };
    let (b1c, b1s, b2c, b2e): (u32, u32, u32, u32) = if mode == 2 { (1, 12, 1, 50) } else { (1, 5, 1, 50) };
    let (q, qs, qe): (u32, u32, u32) = if mode == 0 { (0, 10, 20) } else { (1, 10, 20) };
    let (sa0, ea0, sa1, ea1, sb0, eb0): (u32, u32, u32, u32, u32, u32) = (kani::any(), kani::any(), kani::any(), kani::any(), kani::any(), kani::any());
    kani::assume(sa0 <= ea0 && sa1 <= ea1 && sb0 <= eb0);
    kani::assume(key(a1c, a1s) <= key(ca0, sa0) && key(a1c, a1s) <= key(ca1, sa1));
    kani::assume(key(a2c, a2e) >= key(ca0, ea0) && key(a2c, a2e) >= key(ca1, ea1));
    kani::assume(key(b1c, b1s) <= key(cb0, sb0) && key(b2c, b2e) >= key(cb0, eb0));
    // layout: [0..36) leaf B, [36..88) root, [88..156) leaf A
    let mut d: Vec<u8> = Vec::with_capacity(160);
    d.push(1); d.push(0); put16(&mut d, big, 1);
    put_leaf(&mut d, big, cb0, sb0, cb0, eb0, 3000, 30);
    d.push(0); d.push(0); put16(&mut d, big, 2);
    put_nonleaf(&mut d, big, a1c, a1s, a2c, a2e, 88);
    put_nonleaf(&mut d, big, b1c, b1s, b2c, b2e, 0);
    d.push(1); d.push(0); put16(&mut d, big, 2);
    put_leaf(&mut d, big, ca0, sa0, ca0, ea0, 1000, 10);
    put_leaf(&mut d, big, ca1, sa1, ca1, ea1, 2000, 20);
    // pre-order visit of the overlapping children: root, then leaf A (offset 88) and/or leaf B (offset 0)
    let script: [u64; 4] = if mode == 0 { [36, 88, 7, 7] } else if mode == 1 { [36, 0, 7, 7] } else { [36, 88, 0, 7] };
    let visits = if mode == 2 { 3 } else { 2 };
    let mut cur = ScriptedFile { cur: crate::verif_support::LoopCursor::new(d), script, k: 0, block: (0, 0), block_reads: 0 };
    let r = search_cir_tree_inner(endian(big), &mut cur, 36, q, qs, qe);
    assert!(cur.k == visits, "[visits] the search did not visit exactly the nodes whose recorded span overlaps the query");
    let (rok, got) = match r {
        Ok(v) => (true, v),
        Err(e) => { core::mem::forget(e); (false, Vec::new()) }
    };
    assert!(rok, "[search] searching a well-formed index failed");
    let hit = |c: u32, s: u32, e: u32| key(q, qs) <= key(c, e) && key(q, qe) >= key(c, s);
    let (h0, h1, h2) = (hit(ca0, sa0, ea0), hit(ca1, sa1, ea1), hit(cb0, sb0, eb0));
    let n = (h0 as usize) + (h1 as usize) + (h2 as usize);
    assert!(got.len() == n, "[count] the index search returns a different number of blocks than the linear scan");
    let mut k = 0;
    if h0 { assert!(got[k].offset == 1000 && got[k].size == 10, "[order0] wrong block / order"); k += 1; }
    if h1 { assert!(got[k].offset == 2000 && got[k].size == 20, "[order1] wrong block / order"); k += 1; }
    if h2 { assert!(got[k].offset == 3000 && got[k].size == 30, "[order2] wrong block / order"); k += 1; }
    let c1 = n == 1;
    kani::cover!(c1, "exactly one block returned");
    let c2 = if mode == 1 { n == 0 } else { n >= 2 };
    kani::cover!(c2, "mode 0/2: at least two blocks returned; mode 1: none");
    core::mem::forget(got);
    core::mem::forget(cur);
}

// @harness c10_read_info_header
// @props C10 C01 C02
// @tier quick
// @sub src/bbi/bbiread.rs ::: use bytes::{Buf, BytesMut}; ::: use crate::verif_support::bbuf::BytesMut;
// @kind core
// @timeout 2400
// @mem 24
// @functions bbiread::read_info, read_zoom_headers, read_chrom_tree_block (leaf arm) over an in-memory file (LoopCursor: byte-loop Read + Seek); bytes::BytesMut replaced by the model verif_support::bbuf (agreement: c02_bytes_model_agrees)
// @bounds an independently encoded file prefix: 64-byte header (all fields symbolic, full width), little-endian (big-endian: c10_read_info_bigendian; with a symbolic byte order the key size read back from the file is no longer folded and buffer sizes become symbolic), bigBed (bigWig: c10_read_info_bigwig), 1 zoom directory entry, chromosome tree with one leaf of 2 chromosomes ("a", "bb"; ids and sizes symbolic)
// @stubs alloc::fmt::format -> empty; core::str::from_utf8 -> trusting conversion (chromosome names are ASCII by construction; std's validation has an alignment-dependent fast path that is nondeterministic under CBMC)
// @assumes well-formed file (magic, chromosome tree magic, val size 8)
// @cut multi-level chromosome trees (c10_read_chrom_tree_2level), more zoom levels, data and index sections
// @witness cover: a version other than 4
#[kani::proof]
#[kani::unwind(70)]
#[kani::stub(std::str::from_utf8, crate::verif_support::str_from_utf8_trusting)]
#[kani::stub(alloc::fmt::format, crate::verif_support::fake_format)]
fn c10_read_info_header() {
    read_info_header(false, true);
}

// @harness c10_read_info_bigwig
// @props C10 C01
// @tier quick
// @kind core
// @timeout 2400
// @mem 24
// @sub src/bbi/bbiread.rs ::: use bytes::{Buf, BytesMut}; ::: use crate::verif_support::bbuf::BytesMut;
// @functions as c10_read_info_header, for a little-endian bigWig file
// @bounds as c10_read_info_header
// @stubs as c10_read_info_header
// @assumes well-formed file
// @witness cover: a version other than 4
#[kani::proof]
#[kani::unwind(70)]
#[kani::stub(std::str::from_utf8, crate::verif_support::str_from_utf8_trusting)]
#[kani::stub(alloc::fmt::format, crate::verif_support::fake_format)]
fn c10_read_info_bigwig() {
    read_info_header(false, false);
}

// @harness c10_read_info_bigendian
// @props C10
// @tier quick
// @sub src/bbi/bbiread.rs ::: use bytes::{Buf, BytesMut}; ::: use crate::verif_support::bbuf::BytesMut;
// @kind core
// @timeout 2400
// @mem 24
// @functions as c10_read_info_header, for a big-endian file
// @bounds as c10_read_info_header
// @stubs alloc::fmt::format -> empty
// @assumes well-formed file
// @witness cover: a version other than 4
#[kani::proof]
#[kani::unwind(70)]
#[kani::stub(std::str::from_utf8, crate::verif_support::str_from_utf8_trusting)]
#[kani::stub(alloc::fmt::format, crate::verif_support::fake_format)]
fn c10_read_info_bigendian() {
    read_info_header(true, false);
}

fn read_info_header(big: bool, isbed: bool) {
    // file type and byte order are concrete per harness: a symbolic magic makes the decoded byte order an
    // if-then-else, both decoding arms run, and the zoom count / key size read back become symbolic sizes
    let (ver, fc, dfc): (u16, u16, u16) = (kani::any(), kani::any(), kani::any());
    let (fdo, fio, aso, tso): (u64, u64, u64, u64) = (kani::any(), kani::any(), kani::any(), kani::any());
    let ubs: u32 = kani::any();
    let (zr, zd, zi): (u32, u64, u64) = (kani::any(), kani::any(), kani::any());
    let (ida, sza, idb, szb): (u32, u32, u32, u32) = (kani::any(), kani::any(), kani::any(), kani::any());
    let magic: u32 = if isbed { 0x8789_F2EB } else { 0x888F_FC26 };
    let mut d: Vec<u8> = Vec::with_capacity(160);
    put32(&mut d, big, magic); put16(&mut d, big, ver); put16(&mut d, big, 1);
    put64(&mut d, big, 88); // chromosome tree right after the zoom directory
    put64(&mut d, big, fdo); put64(&mut d, big, fio);
    put16(&mut d, big, fc); put16(&mut d, big, dfc);
    put64(&mut d, big, aso); put64(&mut d, big, tso); put32(&mut d, big, ubs); put64(&mut d, big, 0);
    // zoom directory entry
    put32(&mut d, big, zr); put32(&mut d, big, 0); put64(&mut d, big, zd); put64(&mut d, big, zi);
    // chromosome tree header + one leaf
    put32(&mut d, big, 0x78CA_8C91); put32(&mut d, big, 2); put32(&mut d, big, 2); put32(&mut d, big, 8);
    put64(&mut d, big, 2); put64(&mut d, big, 0);
    d.push(1); d.push(0); put16(&mut d, big, 2);
    d.push(b'a'); d.push(0); put32(&mut d, big, ida); put32(&mut d, big, sza);
    d.push(b'b'); d.push(b'b'); put32(&mut d, big, idb); put32(&mut d, big, szb);
    let mut cur = crate::verif_support::LoopCursor::new(d);
    let r = read_info(&mut cur);
    let ok = match &r {
        Ok(info) => {
            let h = &info.header;
            let ft_ok = match info.filetype { BBIFile::BigBed => isbed, BBIFile::BigWig => !isbed };
            let en_ok = match h.endianness { Endianness::Big => big, Endianness::Little => !big };
            ft_ok && en_ok && h.version == ver && h.zoom_levels == 1 && h.chromosome_tree_offset == 88
                && h.full_data_offset == fdo && h.full_index_offset == fio && h.field_count == fc && h.defined_field_count == dfc
                && h.auto_sql_offset == aso && h.total_summary_offset == tso && h.uncompress_buf_size == ubs
                && info.zoom_headers.len() == 1 && info.zoom_headers[0].reduction_level == zr
                && info.zoom_headers[0].data_offset == zd && info.zoom_headers[0].index_offset == zi
                && info.chrom_info.len() == 2
                && info.chrom_info[0].name.as_bytes() == b"a" && info.chrom_info[0].id == ida && info.chrom_info[0].length == sza
                && info.chrom_info[1].name.as_bytes() == b"bb" && info.chrom_info[1].id == idb && info.chrom_info[1].length == szb
        }
        Err(_) => false,
    };
    core::mem::forget(r);
    assert!(ok, "[read_info] header / zoom directory / chromosome table differ from what the file encodes");
    let c1 = ver != 4;
    kani::cover!(c1, "a version other than 4 is read back");
    core::mem::forget(cur);
}

fn zput_rec(v: &mut Vec<u8>, big: bool, c: u32, s: u32, e: u32, valid: u32, mn: u32, mx: u32, sm: u32, sq: u32) {
    put32(v, big, c); put32(v, big, s); put32(v, big, e); put32(v, big, valid);
    put32(v, big, mn); put32(v, big, mx); put32(v, big, sm); put32(v, big, sq);
}

/// file + decompression layer under the zoom reader (uncompressed zoom block)
pub struct ZoomFake {
    pub block: Vec<u8>,
}
impl BBIFileRead for ZoomFake {
    type Reader = std::io::Cursor<Vec<u8>>;
    fn get_block_data(&mut self, _info: &BBIFileInfo, _block: &Block) -> io::Result<Vec<u8>> {
        Ok(self.block.clone())
    }
    fn blocks_for_cir_tree_node(&mut self, _e: Endianness, _o: u64, _c: u32, _s: u32, _en: u32) -> io::Result<(SmallVec<[u64; 4]>, SmallVec<[Block; 4]>)> {
        Err(io::Error::from(io::ErrorKind::Other))
    }
    fn raw_reader(&mut self) -> &mut Self::Reader {
        loop {}
    }
}

fn zoom_block_values(big: bool) {
    let (c0, s0, e0, v0): (u32, u32, u32, u32) = (kani::any(), kani::any(), kani::any(), kani::any());
    let (c1, s1, e1, v1): (u32, u32, u32, u32) = (kani::any(), kani::any(), kani::any(), kani::any());
    let (mn0, mx0, sm0, sq0): (u32, u32, u32, u32) = (kani::any(), kani::any(), kani::any(), kani::any());
    let (mn1, mx1, sm1, sq1): (u32, u32, u32, u32) = (kani::any(), kani::any(), kani::any(), kani::any());
    kani::assume(s0 < e0 && s1 < e1);
    let (qc, qs, qe): (u32, u32, u32) = (kani::any(), kani::any(), kani::any());
    kani::assume(qs <= qe);
    let mut b: Vec<u8> = Vec::with_capacity(64);
    zput_rec(&mut b, big, c0, s0, e0, v0, mn0, mx0, sm0, sq0);
    zput_rec(&mut b, big, c1, s1, e1, v1, mn1, mx1, sm1, sq1);
    let info = BBIFileInfo {
        filetype: BBIFile::BigWig,
        header: BBIHeader {
            endianness: endian(big), version: 4, field_count: 0, defined_field_count: 0, zoom_levels: 1,
            chromosome_tree_offset: 0, full_data_offset: 0, full_index_offset: 0, full_index_tree_offset: None,
            auto_sql_offset: 0, total_summary_offset: 0, uncompress_buf_size: 0,
        },
        zoom_headers: Vec::new(),
        chrom_info: Vec::new(),
    };
    let mut bw = BigWigRead { info, read: ZoomFake { block: b } };
    let mut known: u64 = 0;
    let r = get_zoom_block_values(&mut bw, Block { offset: 0, size: 64 }, &mut known, qc, qs, qe);
    let (ok, n, a, bb) = match r {
        Ok(mut it) => {
            let a = it.next();
            let b2 = it.next();
            let c = it.next();
            let n = (a.is_some() as u8) + (b2.is_some() as u8) + (c.is_some() as u8);
            core::mem::forget(it);
            (true, n, a, b2)
        }
        Err(e) => { core::mem::forget(e); (false, 0, None, None) }
    };
    assert!(ok, "[ok] a well-formed zoom block was rejected");
    // every record of the queried chromosome that intersects the range must be returned (records that
    // merely touch a boundary may be included: the reader's filter is inclusive), in stored order
    let w0 = c0 == qc && e0 >= qs && s0 <= qe;
    let w1 = c1 == qc && e1 >= qs && s1 <= qe;
    assert!(n == (w0 as u8) + (w1 as u8), "[count] returned zoom records differ from the intersection rule");
    let chk = |x: &ZoomRecord, c: u32, s: u32, e: u32, v: u32, mn: u32, mx: u32, sm: u32, sq: u32| {
        x.chrom == c && x.start == s && x.end == e && x.summary.bases_covered == v as u64
            && x.summary.min_val.to_bits() == (f32::from_bits(mn) as f64).to_bits()
            && x.summary.max_val.to_bits() == (f32::from_bits(mx) as f64).to_bits()
            && x.summary.sum.to_bits() == (f32::from_bits(sm) as f64).to_bits()
            && x.summary.sum_squares.to_bits() == (f32::from_bits(sq) as f64).to_bits()
    };
    if w0 {
        let okf = match &a { Some(x) => chk(x, c0, s0, e0, v0, mn0, mx0, sm0, sq0), None => false };
        assert!(okf, "[first] first intersecting zoom record decoded wrongly");
        if w1 {
            let oks = match &bb { Some(x) => chk(x, c1, s1, e1, v1, mn1, mx1, sm1, sq1), None => false };
            assert!(oks, "[second] second intersecting zoom record decoded wrongly / out of order");
        }
    } else if w1 {
        let okf = match &a { Some(x) => chk(x, c1, s1, e1, v1, mn1, mx1, sm1, sq1), None => false };
        assert!(okf, "[only_second] the only intersecting zoom record decoded wrongly");
    }
    let c1c = w0 & (s0 < qs) & (e0 > qs);
    kani::cover!(c1c, "query starts strictly inside a record");
    let c2c = !w0 & w1;
    kani::cover!(c2c, "first record filtered out");
    core::mem::forget(bw);
}

// @harness c07_zoom_block_values
// @props C07 C08 C10
// @tier quick
// @kind core
// @timeout 2400
// @mem 24
// @functions bbiread::get_zoom_block_values (little-endian file), through BigWigRead<ZoomFake>
// @bounds one zoom block with 2 records (independent encoder); chromosome ids, coordinates, valid count and the four f32 statistics full width; arbitrary query chromosome and range
// @stubs ZoomFake implements the public BBIFileRead trait (uncompressed block bytes); alloc::fmt::format -> empty; Vec::push -> within capacity (asserted)
// @cut zlib; more than 2 records; the zoom index search (same functions as the main index)
// @witness cover: a query starting strictly inside a record; first record filtered out
#[kani::proof]
#[kani::unwind(4)]
#[kani::stub(alloc::fmt::format, crate::verif_support::fake_format)]
#[kani::stub(alloc::vec::Vec::push, crate::verif_support::push_within_capacity)]
fn c07_zoom_block_values() {
    zoom_block_values(false);
}

// @harness c10_zoom_block_bigendian
// @props C10 C07
// @tier quick
// @kind core
// @timeout 2400
// @mem 24
// @functions bbiread::get_zoom_block_values (big-endian file)
// @bounds as c07_zoom_block_values
// @stubs as c07_zoom_block_values
// @witness cover: as c07_zoom_block_values
#[kani::proof]
#[kani::unwind(4)]
#[kani::stub(alloc::fmt::format, crate::verif_support::fake_format)]
#[kani::stub(alloc::vec::Vec::push, crate::verif_support::push_within_capacity)]
fn c10_zoom_block_bigendian() {
    zoom_block_values(true);
}

// @harness c03_cached_node_two_queries
// @props C03 C04 C05
// @tier quick
// @kind core
// @timeout 2400
// @mem 24
// @sub src/bbi/bbiread.rs ::: use bytes::{Buf, BytesMut}; ::: use crate::verif_support::bbuf::BytesMut; ||| src/bbi/bbiread.rs ::: use std::collections::hash_map::Entry; ::: use crate::verif_support::hmap::Entry; ||| src/bbi/bbiread.rs ::: use std::collections::{HashMap, VecDeque}; ::: use std::collections::VecDeque; use crate::verif_support::hmap::HashMap;
// @functions bbiread::CachedBBIFileRead::blocks_for_cir_tree_node (vacant then occupied cache entry) over an in-memory file (LoopCursor); read_node, cir_tree_leaf_items, nodes_overlapping; std HashMap replaced by the association-list model verif_support::hmap, bytes::BytesMut by verif_support::bbuf
// @bounds one independently encoded little-endian leaf node with 2 blocks (spans full width, chromosomes 0/1); TWO arbitrary queries against the same caching reader: the second answer must not depend on the first
// @stubs SmallVec::push -> within inline capacity (asserted); alloc::fmt::format -> empty
// @assumes std's HashMap behaves as a finite map (the model is not solver-checked against hashbrown: its SIMD probing does not finish symbolic execution)
// @cut the block-data cache (get_block_data) and its 5000-entry reset; non-leaf nodes
// @witness cover: the first query selects one block and the second the other
#[kani::proof]
#[kani::unwind(12)]
#[kani::stub(alloc::fmt::format, crate::verif_support::fake_format)]
#[kani::stub(SmallVec::push, crate::verif_support::smallvec_push_inline)]
fn c03_cached_node_two_queries() {
    cached_two_queries(false);
}

fn cached_two_queries(concrete_first: bool) {
    let (c0, s0, e0): (u32, u32, u32) = if concrete_first { (0, 10, 20) } else { (kani::any(), kani::any(), kani::any()) };
    let (c1, s1, e1): (u32, u32, u32) = if concrete_first { (0, 30, 40) } else { (kani::any(), kani::any(), kani::any()) };
    kani::assume(s0 <= e0 && s1 <= e1 && c0 <= 1 && c1 <= 1);
    let mut d: Vec<u8> = Vec::with_capacity(72);
    d.push(1); d.push(0); put16(&mut d, false, 2);
    put_leaf(&mut d, false, c0, s0, c0, e0, 1000, 10);
    put_leaf(&mut d, false, c1, s1, c1, e1, 2000, 20);
    let mut rd = CachedBBIFileRead::new(crate::verif_support::LoopCursor::new(d));
    let hit = |q: u32, qs: u32, qe: u32, c: u32, s: u32, e: u32| key(q, qs) <= key(c, e) && key(q, qe) >= key(c, s);
    // first query
    let (qa, qas, qae): (u32, u32, u32) = if concrete_first { (0, 12, 15) } else { (kani::any(), kani::any(), kani::any()) };
    kani::assume(qa <= 1 && qas <= qae);
    let r1 = rd.blocks_for_cir_tree_node(Endianness::Little, 0, qa, qas, qae);
    let ok1 = match &r1 {
        Ok((ch, bl)) => {
            let (h0, h1) = (hit(qa, qas, qae, c0, s0, e0), hit(qa, qas, qae, c1, s1, e1));
            ch.is_empty() && bl.len() == (h0 as usize) + (h1 as usize)
                && (!h0 || bl[0].offset == 1000) && (!h1 || bl[h0 as usize].offset == 2000)
        }
        Err(_) => false,
    };
    core::mem::forget(r1);
    assert!(ok1, "[first_query] wrong blocks for the first query");
    // second query through the now populated cache
    let (qb, qbs, qbe): (u32, u32, u32) = (kani::any(), kani::any(), kani::any());
    kani::assume(qb <= 1 && qbs <= qbe);
    let r2 = rd.blocks_for_cir_tree_node(Endianness::Little, 0, qb, qbs, qbe);
    let (g0, g1) = (hit(qb, qbs, qbe, c0, s0, e0), hit(qb, qbs, qbe, c1, s1, e1));
    let ok2 = match &r2 {
        Ok((ch, bl)) => {
            ch.is_empty() && bl.len() == (g0 as usize) + (g1 as usize)
                && (!g0 || bl[0].offset == 1000) && (!g1 || bl[g0 as usize].offset == 2000)
        }
        Err(_) => false,
    };
    core::mem::forget(r2);
    assert!(ok2, "[second_query] the answer through the cache differs from the overlap spec (depends on the earlier query?)");
    let c1c = hit(qa, qas, qae, c0, s0, e0) & !hit(qa, qas, qae, c1, s1, e1) & !g0 & g1;
    kani::cover!(c1c, "first query selects block 0 only, second block 1 only");
    core::mem::forget(rd);
}

// @harness c03_cached_node_concrete_first
// @props C03 C04 C05
// @tier quick
// @kind core
// @timeout 2400
// @mem 24
// @sub src/bbi/bbiread.rs ::: use bytes::{Buf, BytesMut}; ::: use crate::verif_support::bbuf::BytesMut; ||| src/bbi/bbiread.rs ::: use std::collections::hash_map::Entry; ::: use crate::verif_support::hmap::Entry; ||| src/bbi/bbiread.rs ::: use std::collections::{HashMap, VecDeque}; ::: use std::collections::VecDeque; use crate::verif_support::hmap::HashMap;
// @functions bbiread::CachedBBIFileRead::blocks_for_cir_tree_node (vacant then occupied cache entry) over an in-memory file (LoopCursor); read_node, cir_tree_leaf_items, nodes_overlapping; std HashMap replaced by the association-list model verif_support::hmap, bytes::BytesMut by verif_support::bbuf
// @bounds one independently encoded little-endian leaf node with 2 blocks (spans full width, chromosomes 0/1); block spans chr0:[10,20] and chr0:[30,40] and the FIRST query chr0:[12,15] concrete (selects the first block only), the second query arbitrary. Every size stays concrete even if the cache were to store a query-dependent subset, which makes this the robust twin of c03_cached_node_two_queries (that one ran out of memory, i.e. inconclusive, on seed C03-3: a symbolic-length cached vector is cloned)
// @stubs SmallVec::push -> within inline capacity (asserted); alloc::fmt::format -> empty
// @assumes std's HashMap behaves as a finite map (the model is not solver-checked against hashbrown: its SIMD probing does not finish symbolic execution)
// @cut the block-data cache (get_block_data) and its 5000-entry reset; non-leaf nodes
// @witness cover: the second query selects the second block only
#[kani::proof]
#[kani::unwind(12)]
#[kani::stub(alloc::fmt::format, crate::verif_support::fake_format)]
#[kani::stub(SmallVec::push, crate::verif_support::smallvec_push_inline)]
fn c03_cached_node_concrete_first() {
    cached_two_queries(true);
}

fn spin_a(n: u64) -> u64 { let mut i = 0; while i < n { i += 1; } i }
fn spin_b(n: u64) -> u64 { let mut i = 0; while i < n { i += 1; } i }
fn spin_c(n: u64) -> u64 { let mut i = 0; while i < n { i += 1; } i }
fn spin(n: u64) -> u64 {
    let mut i = 0;
    while i < n { i += 1; }
    i
}
// @harness probe_nonleaf_iter_constprop
// @props X
// @tier off
// @kind stretch
// @timeout 600
// @mem 8
// @functions probe only
// @bounds probe
#[kani::proof]
#[kani::unwind(60)]
fn probe_nonleaf_iter_constprop() {
    let s: u32 = kani::any();
    let mut d: Vec<u8> = Vec::with_capacity(48);
    put_nonleaf(&mut d, false, 0, s, 0, 100, 9);
    put_nonleaf(&mut d, false, 1, 5, 1, 50, 4);
    let mut it = CirTreeNonLeafItemsIterator { endianness: Endianness::Little, i: 0, count: 2, bytes: d };
    let a = it.next().unwrap();
    let r0 = spin(a.node_offset);
    let b = it.next().unwrap();
    let r1 = spin(b.node_offset);
    assert!(r0 == 9 && r1 == 4 && a.start_base == s);
    core::mem::forget(it);
}

// @harness probe_blocks_for_node_constprop
// @props X
// @tier off
// @kind stretch
// @timeout 600
// @mem 8
// @fs 16384
// @sub src/bbi/bbiread.rs ::: use bytes::{Buf, BytesMut}; ::: use crate::verif_support::bbuf::BytesMut;
// @functions probe only
// @bounds probe
#[kani::proof]
#[kani::unwind(100)]
#[kani::stub(alloc::fmt::format, crate::verif_support::fake_format)]
#[kani::stub(alloc::alloc::alloc_zeroed, crate::verif_support::alloc_zeroed_loop)]
#[kani::stub(SmallVec::push, crate::verif_support::smallvec_push_inline)]
fn probe_blocks_for_node_constprop() {
    let s: u32 = 0;
    let mut d: Vec<u8> = Vec::with_capacity(160);
    d.push(0); d.push(0); put16(&mut d, false, 2);
    put_nonleaf(&mut d, false, 0, s, 0, 100, 9);
    put_nonleaf(&mut d, false, 1, 5, 1, 50, 4);
    let mut cur = crate::verif_support::LoopCursor::new(d);
    let r: io::Result<(SmallVec<[u64; 4]>, SmallVec<[Block; 4]>)> = cur.blocks_for_cir_tree_node(Endianness::Little, 0, 0, 10, 20);
    let (ch, bl) = match r { Ok(d) => d, Err(e) => { core::mem::forget(e); return; } };
    let n = ch.len();
    let r0 = spin(n as u64);
    let c0 = ch[0];
    let r1 = spin(c0);
    assert!(r0 == 1 && r1 == 9);
    core::mem::forget(ch); core::mem::forget(bl); core::mem::forget(cur);
}


/// little-endian bigWig: [0,48) index header, [48,84) root = leaf with one block item, [84,144) a bedGraph
/// section with three values 1.5, -2.0, 0.25 (coordinates symbolic); one chromosome "a" (id 0)
pub fn one_block_bigwig(s: [u32; 3], e: [u32; 3]) -> BigWigRead<ScriptedFile> {
    let big = false;
    let vals: [f32; 3] = [1.5, -2.0, 0.25];
    let mut d: Vec<u8> = Vec::with_capacity(160);
    put32(&mut d, big, 0x2468_ACE0); put32(&mut d, big, 256); put64(&mut d, big, 1);
    put32(&mut d, big, 0); put32(&mut d, big, 0); put32(&mut d, big, 1); put32(&mut d, big, 0);
    put64(&mut d, big, 144); put32(&mut d, big, 1024); put32(&mut d, big, 0);
    d.push(1); d.push(0); put16(&mut d, big, 1);
    // the leaf item's recorded span is concrete and generous (all of chromosome 0): whether the block is fetched
    // is then decided during symbolic execution; the section's own span and the values are symbolic
    put_leaf(&mut d, big, 0, 0, 1, 0, 84, 60);
    put32(&mut d, big, 0); put32(&mut d, big, s[0]); put32(&mut d, big, e[2]); put32(&mut d, big, 0); put32(&mut d, big, 0);
    d.push(1); d.push(0); put16(&mut d, big, 3);
    let mut i = 0;
    while i < 3 {
        put32(&mut d, big, s[i]); put32(&mut d, big, e[i]); put32(&mut d, big, vals[i].to_bits());
        i += 1;
    }
    let mut chrom_info = Vec::with_capacity(1);
    chrom_info.push(ChromInfo { name: String::from("a"), id: 0, length: u32::MAX });
    let info = BBIFileInfo {
        filetype: BBIFile::BigWig,
        header: BBIHeader {
            endianness: Endianness::Little, version: 4, field_count: 0, defined_field_count: 0, zoom_levels: 0,
            chromosome_tree_offset: 0, full_data_offset: 84, full_index_offset: 0, full_index_tree_offset: None,
            auto_sql_offset: 0, total_summary_offset: 0, uncompress_buf_size: 0,
        },
        zoom_headers: Vec::new(),
        chrom_info,
    };
    BigWigRead { info, read: ScriptedFile { cur: crate::verif_support::LoopCursor::new(d), script: [48, 7, 7, 7], k: 0, block: (84, 60), block_reads: 0 } }
}

