use super::parse::parse_autosql;

fn alpha(x: u8) -> u8 {
    // delimiter alphabet of the parser plus one letter
    match x {
        0 => b'(',
        1 => b')',
        2 => b' ',
        3 => b',',
        4 => b';',
        _ => b'a',
    }
}

fn parse_prefix_plus_suffix(prefix: &[u8], maxlen: usize) {
    let mut buf = [0u8; 32];
    let pl = prefix.len();
    let mut i = 0;
    while i < pl {
        buf[i] = prefix[i];
        i += 1;
    }
    let n: usize = kani::any();
    kani::assume(n <= maxlen);
    let (c0, c1, c2): (u8, u8, u8) = (kani::any(), kani::any(), kani::any());
    kani::assume(c0 < 6 && c1 < 6 && c2 < 6);
    if n >= 1 { buf[pl] = alpha(c0); }
    if n >= 2 { buf[pl + 1] = alpha(c1); }
    if n >= 3 { buf[pl + 2] = alpha(c2); }
    let s = unsafe { core::str::from_utf8_unchecked(&buf[..pl + n]) };
    let r = parse_autosql(s);
    // totality: reaching this point (within the unwinding bound, without a panic) IS the property
    let is_ok = r.is_ok();
    kani::cover!(is_ok, "some suffix parses");
    let is_err = !is_ok;
    kani::cover!(is_err, "some suffix is rejected");
    core::mem::forget(r);
}

// @harness c19_parser_total_enum
// @props C19
// @tier off
// @kind core
// @timeout 2400
// @mem 24
// @unwind_is_property yes
// @functions bed::autosql::parse::{parse_autosql, parse_declaration_list, parse_declaration, parse_field_list, FieldType::try_parse, DeclareName::parse}, parser::Parser::{eat_word, eat_one, peek_word, peek_one, take_whitespace, eat_quoted_string}
// @bounds input = `table a "" (enum` followed by every string of length 0..=3 over the alphabet { ( ) space , ; a }; unwinding 24 (inputs <= 20 bytes): the parser must return (Ok or Err) within the bound and never panic
// @stubs alloc::fmt::format -> empty string
// @assumes ASCII input (no multi-byte characters)
// @cut longer suffixes, other prefixes (see c19_parser_total_set / _decl); the generated ~1 KB schemas
// @witness cover: some suffix parses or is rejected (the harness returns)
#[kani::proof]
#[kani::unwind(24)]
#[kani::stub(alloc::fmt::format, crate::verif_support::fake_format)]
fn c19_parser_total_enum() {
    parse_prefix_plus_suffix(b"table a \"\" (enum", 3);
}

fn parse_truncation(schema: &'static [u8]) {
    let n: usize = kani::any();
    kani::assume(n <= schema.len());
    let s = unsafe { core::str::from_utf8_unchecked(&schema[..n]) };
    let r = parse_autosql(s);
    let is_ok = r.is_ok();
    kani::cover!(is_ok, "some truncation parses");
    let is_err = !is_ok;
    kani::cover!(is_err, "some truncation is rejected");
    core::mem::forget(r);
}

// @harness c19_parser_total_truncations_enum
// @props C19
// @tier off
// @kind core
// @timeout 2400
// @mem 24
// @unwind_is_property yes
// @functions bed::autosql::parse::{parse_autosql, parse_declaration_list, parse_declaration, parse_field_list, FieldType::try_parse, DeclareName::parse}, parser::Parser::*
// @bounds EVERY truncation (symbolic length 0..=19) of the schema `table a(enum(x,y)f;)`: the parser must return Ok or Err within the unwinding bound (24 per loop) and never panic
// @stubs alloc::fmt::format -> empty string
// @cut other schemas (see the _set/_array variants), single-token mutations, non-ASCII text, the ~1 KB generated schemas
// @witness cover: some truncation parses; some truncation is rejected
#[kani::proof]
#[kani::unwind(24)]
#[kani::stub(alloc::fmt::format, crate::verif_support::fake_format)]
fn c19_parser_total_truncations_enum() {
    parse_truncation(b"table a(enum(x,y)f;)");
}

// @harness c19_fieldtype_total_enum
// @props C19
// @tier off
// @kind core
// @timeout 2400
// @mem 24
// @unwind_is_property yes
// @modpath bed::autosql::parse::verif_kani_inner
// @bodyfile autosql_inner.rs
// @sub src/bed/autosql.rs ::: pub mod parse { ::: pub mod parse { #[cfg(kani)] #[allow(unused)] mod verif_kani_inner { include!("{HARNESS_DIR}/autosql_inner.rs"); }
// @functions bed::autosql::parse::FieldType::try_parse (enum value list), parser::Parser::{peek_word, take, eat_one, eat_word, take_whitespace}
// @bounds EVERY truncation (symbolic length 0..=10) of the field type text `enum(x,y) `: try_parse must return within the unwinding bound (14 per loop: inputs are at most 10 bytes) and never panic
// @stubs alloc::fmt::format -> empty string
// @cut other texts; whole declarations (the declaration-level loop is bounded by a counter in the code); non-ASCII
// @witness cover: some truncation parses
// (harness body: harness/autosql_inner.rs, compiled inside `mod parse`)

// @harness c19_fieldtype_total_set
// @props C19
// @tier off
// @kind core
// @timeout 2400
// @mem 24
// @unwind_is_property yes
// @modpath bed::autosql::parse::verif_kani_inner
// @bodyfile autosql_inner.rs
// @sub src/bed/autosql.rs ::: pub mod parse { ::: pub mod parse { #[cfg(kani)] #[allow(unused)] mod verif_kani_inner { include!("{HARNESS_DIR}/autosql_inner.rs"); }
// @functions bed::autosql::parse::FieldType::try_parse (set value list), parser::Parser::*
// @bounds EVERY truncation (symbolic length 0..=10) of the field type text `set(a, b) `
// @stubs alloc::fmt::format -> empty string
// @witness cover: some truncation parses
// (harness body: harness/autosql_inner.rs)

// @harness c19_enum_list_terminates
// @props C19
// @tier off
// @kind core
// @timeout 2400
// @mem 24
// @unwind_is_property yes
// @modpath bed::autosql::parse::verif_kani_inner
// @bodyfile autosql_inner.rs
// @sub src/bed/autosql.rs ::: pub mod parse { ::: pub mod parse { #[cfg(kani)] #[allow(unused)] mod verif_kani_inner { include!("{HARNESS_DIR}/autosql_inner.rs"); }
// @functions bed::autosql::parse::FieldType::try_parse (enum value list loop), parser::Parser::{peek_word, take, eat_one, eat_word, take_whitespace}
// @bounds input = `enum(` followed by every string of length 0..=2 over { ( ) space , ; a }, then end of input; the value-list loop must exit within 10 iterations (inputs have at most 2 characters after the bracket) and never panic
// @stubs alloc::fmt::format -> empty string
// @cut longer inputs; whole declarations
// @witness cover: some input parses
// (harness body: harness/autosql_inner.rs)

// @harness c19_set_list_terminates
// @props C19
// @tier off
// @kind core
// @timeout 2400
// @mem 24
// @unwind_is_property yes
// @modpath bed::autosql::parse::verif_kani_inner
// @bodyfile autosql_inner.rs
// @sub src/bed/autosql.rs ::: pub mod parse { ::: pub mod parse { #[cfg(kani)] #[allow(unused)] mod verif_kani_inner { include!("{HARNESS_DIR}/autosql_inner.rs"); }
// @functions bed::autosql::parse::FieldType::try_parse (set value list loop), parser::Parser::*
// @bounds as c19_enum_list_terminates with `set(`
// @stubs alloc::fmt::format -> empty string
// @witness cover: some input parses
// (harness body: harness/autosql_inner.rs)

// @harness c19_enum_unterminated_inputfree
// @props C19
// @tier off
// @kind stretch
// @timeout 900
// @mem 16
// @unwind_is_property yes
// @replay inputfree
// @modpath bed::autosql::parse::verif_kani_inner
// @bodyfile autosql_inner.rs
// @sub src/bed/autosql.rs ::: pub mod parse { ::: pub mod parse { #[cfg(kani)] #[allow(unused)] mod verif_kani_inner { include!("{HARNESS_DIR}/autosql_inner.rs"); }
// @functions bed::autosql::parse::FieldType::try_parse on the concrete text `enum(a` (no symbolic input: a witness run, not a claim about all inputs)
// @bounds concrete input; every loop must exit within 12 iterations
// @stubs alloc::fmt::format -> empty string
// (harness body: harness/autosql_inner.rs)

// @harness c19_set_unterminated_inputfree
// @props C19
// @tier off
// @kind stretch
// @timeout 900
// @mem 16
// @unwind_is_property yes
// @replay inputfree
// @modpath bed::autosql::parse::verif_kani_inner
// @bodyfile autosql_inner.rs
// @sub src/bed/autosql.rs ::: pub mod parse { ::: pub mod parse { #[cfg(kani)] #[allow(unused)] mod verif_kani_inner { include!("{HARNESS_DIR}/autosql_inner.rs"); }
// @functions bed::autosql::parse::FieldType::try_parse on the concrete text `set(`
// @bounds concrete input; every loop must exit within 12 iterations
// @stubs alloc::fmt::format -> empty string
// (harness body: harness/autosql_inner.rs)
