use super::*;
use crate::bbiread::{BBIFileInfo, BBIHeader, BBIFileRead, Block, ChromInfo};
use crate::BBIFile;
use byteordered::Endianness;
use smallvec::{smallvec, SmallVec};
use std::io;

/// reader layer for C17: one uncompressed bedGraph block, always reported by the "index"
pub struct OneBlock {
    pub block: Vec<u8>,
}
impl BBIFileRead for OneBlock {
    type Reader = std::io::Cursor<Vec<u8>>;
    fn get_block_data(&mut self, _info: &BBIFileInfo, _block: &Block) -> io::Result<Vec<u8>> {
        Ok(self.block.clone())
    }
    fn blocks_for_cir_tree_node(&mut self, _e: Endianness, _o: u64, _c: u32, _s: u32, _en: u32) -> io::Result<(SmallVec<[u64; 4]>, SmallVec<[Block; 4]>)> {
        let mut b: SmallVec<[Block; 4]> = smallvec![];
        b.push(Block { offset: 0, size: 48 });
        Ok((smallvec![], b))
    }
    fn raw_reader(&mut self) -> &mut Self::Reader {
        loop {}
    }
}
fn q32(v: &mut Vec<u8>, x: u32) { v.extend_from_slice(&x.to_le_bytes()); }

// @harness c17_stats_for_region
// @props C17
// @tier off
// @kind core
// @timeout 2400
// @mem 24
// @functions utils::misc::stats_for_bed_item -> BigWigRead::get_interval -> search_cir_tree / search_cir_tree_inner / CirTreeBlockSearchIter -> BigWigIntervalIter::next -> get_block_values
// @bounds one little-endian block with 2 stored values (values fixed to 1.0 and 2.0; coordinates symbolic below 2^20, sorted and disjoint); arbitrary region [s,e) with s <= e on the stored chromosome
// @stubs OneBlock implements the public BBIFileRead trait: the index lookup always reports the one block, the block is returned uncompressed; alloc::fmt::format -> empty; Vec::push -> within capacity (asserted); SmallVec::push -> within inline capacity (asserted)
// @assumes the file's index has already been validated (full_index_tree_offset known)
// @cut thread-count independence, chunk reassembly, the CLI and the name column; symbolic values (symbolic*symbolic float products do not finish)
// @witness cover: region straddling both values; region between the values (nothing covered); region clipped inside one value
#[kani::proof]
#[kani::unwind(4)]
#[kani::stub(alloc::fmt::format, crate::verif_support::fake_format)]
#[kani::stub(alloc::vec::Vec::push, crate::verif_support::push_within_capacity)]
#[kani::stub(SmallVec::push, crate::verif_support::smallvec_push_inline)]
fn c17_stats_for_region() {
    let (s0, e0, s1, e1): (u32, u32, u32, u32) = (kani::any(), kani::any(), kani::any(), kani::any());
    kani::assume(s0 < e0 && e0 <= s1 && s1 < e1 && e1 < (1 << 20));
    let (rs, re): (u32, u32) = (kani::any(), kani::any());
    kani::assume(rs <= re && re < (1 << 20));
    let mut b: Vec<u8> = Vec::with_capacity(48);
    q32(&mut b, 5); q32(&mut b, s0); q32(&mut b, e1); q32(&mut b, 0); q32(&mut b, 0);
    b.push(1); b.push(0); b.extend_from_slice(&2u16.to_le_bytes());
    q32(&mut b, s0); q32(&mut b, e0); q32(&mut b, 1.0f32.to_bits());
    q32(&mut b, s1); q32(&mut b, e1); q32(&mut b, 2.0f32.to_bits());
    let mut chroms = Vec::with_capacity(1);
    chroms.push(ChromInfo { name: String::from("c"), length: 1 << 20, id: 5 });
    let info = BBIFileInfo {
        filetype: BBIFile::BigWig,
        header: BBIHeader {
            endianness: Endianness::Little, version: 4, field_count: 0, defined_field_count: 0, zoom_levels: 0,
            chromosome_tree_offset: 0, full_data_offset: 0, full_index_offset: 100, full_index_tree_offset: Some(148),
            auto_sql_offset: 0, total_summary_offset: 0, uncompress_buf_size: 0,
        },
        zoom_headers: Vec::new(),
        chrom_info: chroms,
    };
    let mut bw = BigWigRead::with_info(info, OneBlock { block: b });
    let region = BedEntry { start: rs, end: re, rest: String::new() };
    let r = stats_for_bed_item("c", region, &mut bw);
    let (ok, st) = match r {
        Ok(v) => (true, Some(v)),
        Err(e) => { core::mem::forget(e); (false, None) }
    };
    assert!(ok, "[ok] statistics failed on a well-formed file");
    let st = st.unwrap();
    // oracle from the definition: stored values clipped to the region
    let clip = |s: u32, e: u32| -> u32 {
        let a = if s > rs { s } else { rs };
        let b = if e < re { e } else { re };
        if b > a { b - a } else { 0 }
    };
    let (b0, b1) = (clip(s0, e0), clip(s1, e1));
    assert!(st.size == re - rs, "[size] region size");
    assert!(st.bases == b0 + b1, "[bases] covered bases must be the clipped lengths");
    assert!(st.sum == (b0 as f64) * 1.0 + (b1 as f64) * 2.0, "[sum] sum over covered bases");
    if b0 + b1 == 0 {
        assert!(st.mean.is_nan() && st.min.is_nan() && st.max.is_nan(), "[nan] mean/min/max must be NaN when nothing is covered");
    } else {
        let wmin = if b0 > 0 { 1.0 } else { 2.0 };
        let wmax = if b1 > 0 { 2.0 } else { 1.0 };
        assert!(st.min == wmin && st.max == wmax, "[minmax] min/max over the values overlapping the region");
        assert!(st.mean == st.sum / f64::from(st.bases), "[mean] mean over covered bases = sum / bases");
    }
    if st.size > 0 {
        assert!(st.mean0 == st.sum / f64::from(st.size), "[mean0] mean over the region = sum / size");
    }
    let c1 = (b0 > 0) & (b1 > 0);
    kani::cover!(c1, "region straddles both values");
    let c2 = (b0 + b1 == 0) & (rs >= e0) & (re <= s1) & (re > rs);
    kani::cover!(c2, "region between the values");
    let c3 = (b0 > 0) & (b0 < e0 - s0) & (b1 == 0);
    kani::cover!(c3, "region clipped inside the first value");
    core::mem::forget(bw);
}
