use super::*;
use crate::verif_support::*;
use crate::verif_support::env::*;

// @harness c13_bigwig_accept_predicate
// @props C13
// @tier quick
// @kind core
// @timeout 900
// @mem 16
// @functions bigwigwrite::process_val (acceptance checks, summary update, section hand-off), bigwigwrite::encode_section
// @bounds one call from the empty per-chromosome state; coordinates, value bits and chromosome length full width; items_per_slot = 2
// @stubs tokio Handle::spawn -> run now; mpsc Sender::poll_ready/start_send -> always-ready FIFO log; alloc::fmt::format -> empty string
// @cut refusal as seen through write()/JoinHandles; unknown chromosome / chromosome order (closures inside write_vals)
// @witness cover: accepted (with and without next) and each refusal class reachable
#[kani::proof]
#[kani::unwind(3)]
#[kani::stub(tokio::runtime::Handle::spawn, fake_spawn)]
#[kani::stub(futures::channel::mpsc::Sender::poll_ready, fake_poll_ready)]
#[kani::stub(futures::channel::mpsc::Sender::start_send, fake_start_send)]
#[kani::stub(alloc::fmt::format, fake_format)]
fn c13_bigwig_accept_predicate() {
    let (cs, ce, ns, ne, len): (u32, u32, u32, u32, u32) = (kani::any(), kani::any(), kani::any(), kani::any(), kani::any());
    let (cv, nv): (f32, f32) = (kani::any(), kani::any());
    let has_next: bool = kani::any();
    let cur = Value { start: cs, end: ce, value: cv };
    let next = Value { start: ns, end: ne, value: nv };
    let mut env = Env::new();
    let chrom = String::new();
    let mut summary = Summary { total_items: 0, bases_covered: 0, min_val: f64::MAX, max_val: f64::MIN, sum: 0.0, sum_squares: 0.0 };
    let mut items: Vec<Value> = Vec::with_capacity(2);
    let mut options = BBIWriteOptions::default();
    options.items_per_slot = 2;
    options.compress = false;
    let handle: &tokio::runtime::Handle = env.handle();
    let r = poll_once(process_val(
        cur,
        if has_next { Some(&next) } else { None },
        len,
        &chrom,
        &mut summary,
        &mut items,
        &options,
        handle,
        &mut env.tx,
        7,
    ));
    let (done, is_err) = match &r {
        Some(Ok(())) => (true, false),
        Some(Err(_)) => (true, true),
        None => (false, false),
    };
    core::mem::forget(r);
    assert!(done, "[total] process_val suspended");
    // the writer's documented refusal classes for one bigWig value
    let bad = cs > ce || ce > len || (has_next && ce > ns);
    assert!(is_err == bad, "[accept_iff] Err must be returned exactly for unrepresentable input");
    if is_err {
        assert!(items.is_empty() && env.sent() == 0 && summary.total_items == 0, "[refuse_clean] a refused value must leave no trace");
    } else if has_next {
        // items_per_slot = 2: the first value stays buffered
        assert!(items.len() == 1 && env.sent() == 0, "[buffered] a non-final value below the slot size must stay buffered");
    } else {
        assert!(items.is_empty() && env.sent() == 1, "[flushed] the last value of a chromosome must flush the section");
    }
    kani::cover!(!is_err && has_next, "accepted with a next value");
    kani::cover!(!is_err && !has_next, "accepted last value");
    kani::cover!(cs > ce, "start beyond end");
    kani::cover!(cs <= ce && ce > len, "end beyond chromosome");
    kani::cover!(cs <= ce && ce <= len && has_next && ce > ns, "overlap with next");
    core::mem::forget(items);
    core::mem::forget(chrom);
}

// @harness c13_bigwig_accept_slot_filling
// @props C13
// @tier quick
// @kind core
// @timeout 900
// @mem 16
// @functions bigwigwrite::process_val (acceptance checks on the call that fills a section, summary update, section hand-off), bigwigwrite::encode_section
// @bounds one call from a per-chromosome state with ONE value already buffered and items_per_slot = 2, i.e. the call that fills the slot (the position where a section boundary falls); coordinates, value bits and chromosome length full width
// @stubs tokio Handle::spawn -> run now; mpsc Sender::poll_ready/start_send -> always-ready FIFO log; alloc::fmt::format -> empty string
// @cut refusal as seen through write()/JoinHandles; unknown chromosome / chromosome order (closures inside write_vals)
// @witness cover: accepted (with and without next) and each refusal class reachable
#[kani::proof]
#[kani::unwind(4)]
#[kani::stub(tokio::runtime::Handle::spawn, fake_spawn)]
#[kani::stub(futures::channel::mpsc::Sender::poll_ready, fake_poll_ready)]
#[kani::stub(futures::channel::mpsc::Sender::start_send, fake_start_send)]
#[kani::stub(alloc::fmt::format, fake_format)]
fn c13_bigwig_accept_slot_filling() {
    let (ps, pe, cs, ce, ns, ne, len): (u32, u32, u32, u32, u32, u32, u32) = (kani::any(), kani::any(), kani::any(), kani::any(), kani::any(), kani::any(), kani::any());
    let (cv, nv): (f32, f32) = (kani::any(), kani::any());
    let has_next: bool = kani::any();
    // the buffered value was accepted by the previous call: it is valid and does not overlap the current one
    kani::assume(ps <= pe && pe <= cs);
    let cur = Value { start: cs, end: ce, value: cv };
    let next = Value { start: ns, end: ne, value: nv };
    let mut env = Env::new();
    let chrom = String::new();
    let mut summary = Summary { total_items: 1, bases_covered: 0, min_val: 0.0, max_val: 0.0, sum: 0.0, sum_squares: 0.0 };
    let mut items: Vec<Value> = Vec::with_capacity(2);
    items.push(Value { start: ps, end: pe, value: 1.0 });
    let mut options = BBIWriteOptions::default();
    options.items_per_slot = 2;
    options.compress = false;
    let handle: &tokio::runtime::Handle = env.handle();
    let r = poll_once(process_val(
        cur,
        if has_next { Some(&next) } else { None },
        len,
        &chrom,
        &mut summary,
        &mut items,
        &options,
        handle,
        &mut env.tx,
        7,
    ));
    let (done, is_err) = match &r {
        Some(Ok(())) => (true, false),
        Some(Err(_)) => (true, true),
        None => (false, false),
    };
    core::mem::forget(r);
    assert!(done, "[total] process_val suspended");
    let bad = cs > ce || ce > len || (has_next && ce > ns);
    assert!(is_err == bad, "[accept_iff] Err must be returned exactly for unrepresentable input, also on the call that fills a section");
    if is_err {
        assert!(items.len() == 1 && env.sent() == 0 && summary.total_items == 1, "[refuse_clean] a refused value must leave no trace");
    } else {
        assert!(items.is_empty() && env.sent() == 1, "[flushed] the slot-filling value must flush the section");
    }
    kani::cover!(!is_err && has_next, "accepted with a next value");
    kani::cover!(!is_err && !has_next, "accepted last value");
    kani::cover!(cs > ce, "start beyond end");
    kani::cover!(cs <= ce && ce > len, "end beyond chromosome");
    kani::cover!(cs <= ce && ce <= len && has_next && ce > ns, "overlap with next");
    core::mem::forget(items);
    core::mem::forget(chrom);
}

fn zsum(bases: u64, val: f64) -> Summary {
    Summary { total_items: 0, bases_covered: bases, min_val: val, max_val: val, sum: bases as f64 * val, sum_squares: bases as f64 * val * val }
}

// @harness c07_nosub_zoom_step
// @props C07
// @tier off
// @kind core
// @timeout 1200
// @mem 24
// @functions bigwigwrite::process_val_zoom (one call, one zoom level, a value that is not the last of its chromosome)
// @bounds one step from an ARBITRARY live record satisfying the representation invariant; resolution 3; value length 0..=4; gap of any size; coordinates < 2^31; live record built from 1.0s, incoming value 4.0 (constants: symbolic*symbolic float products do not finish); items_per_slot 8 (no mid-step flush)
// @assumes invariant of the live record: start < end < start+size, end <= value.start, 1 <= bases_covered <= end-start
// @stubs tokio Handle::spawn -> run now; mpsc Sender::poll_ready/start_send -> always-ready FIFO log
// @cut f32 narrowing of the stored statistics (see c09 zoom section layout); several zoom levels at once (the loop body is per level); coordinates >= 2^31 (start+size overflow)
// @witness cover: a gap longer than the resolution; a value spanning 3 records; a value ending exactly on a record boundary
#[kani::proof]
#[kani::unwind(6)]
#[kani::stub(tokio::runtime::Handle::spawn, fake_spawn_skip)]
#[kani::stub(futures::channel::mpsc::Sender::poll_ready, fake_poll_ready)]
#[kani::stub(futures::channel::mpsc::Sender::start_send, fake_start_send)]
#[kani::stub(alloc::vec::Vec::push, push_within_capacity)]
fn c07_nosub_zoom_step() {
    zoom_step_with_next(3, 3, 4);
}

// @harness c07_zoom_step_with_next
// @props C07
// @tier quick
// @kind core
// @timeout 1500
// @mem 24
// @functions bigwigwrite::process_val_zoom (one call, one zoom level, a value that is not the last of its chromosome)
// @bounds one step from an ARBITRARY live record satisfying the representation invariant; resolution 3; value length 0..=4; gap of any size; coordinates < 2^31; live record built from 1.0s, incoming value 4.0 (constants: symbolic*symbolic float products do not finish); items_per_slot 8 (no mid-step flush)
// @assumes invariant of the live record: start < end < start+size, end <= value.start, 1 <= bases_covered <= end-start
// @stubs tokio Handle::spawn -> counted/discarded (asserted never to happen); Vec::push -> push within capacity (asserted); the channel hand-off `X.send(handle).await.expect(..)` is replaced in the scratch copy by `direct_send(&mut X, handle)` (one source substitution: removes the await point inside the tiling loop; with the stubbed Sender alone the same harness did not finish in 20 min)
// @cut f32 narrowing (c09_zoom_section_layout); several zoom levels at once (the loop body is per level); coordinates >= 2^31
// @witness cover: a gap longer than the resolution; a value spanning 3 records; a value ending exactly on a record boundary
// @sub src/bbi/bigwigwrite.rs ::: zoom_item.channel.send(handle).await.expect("Couln't send"); ::: crate::verif_support::env::direct_send(&mut zoom_item.channel, handle);
#[kani::proof]
#[kani::unwind(6)]
#[kani::stub(tokio::runtime::Handle::spawn, fake_spawn_skip)]
#[kani::stub(alloc::vec::Vec::push, push_within_capacity)]
fn c07_zoom_step_with_next() {
    zoom_step_with_next(3, 3, 4);
}

// @harness c07_zoom_step_size2
// @props C07
// @tier thorough
// @kind stretch
// @timeout 3000
// @mem 32
// @functions as c07_zoom_step_with_next
// @bounds as c07_zoom_step_with_next with resolution 2 and value length 0..=5 (a value can span 4 records)
// @assumes as c07_zoom_step_with_next
// @stubs as c07_zoom_step_with_next
// @sub src/bbi/bigwigwrite.rs ::: zoom_item.channel.send(handle).await.expect("Couln't send"); ::: crate::verif_support::env::direct_send(&mut zoom_item.channel, handle);
#[kani::proof]
#[kani::unwind(8)]
#[kani::stub(tokio::runtime::Handle::spawn, fake_spawn_skip)]
#[kani::stub(alloc::vec::Vec::push, push_within_capacity)]
fn c07_zoom_step_size2() {
    zoom_step_with_next(2, 2, 5);
}

// @harness c07_zoom_step_size4
// @props C07
// @tier thorough
// @kind stretch
// @timeout 3000
// @mem 32
// @functions as c07_zoom_step_with_next
// @bounds as c07_zoom_step_with_next with resolution 4 and value length 0..=6
// @assumes as c07_zoom_step_with_next
// @stubs as c07_zoom_step_with_next
// @sub src/bbi/bigwigwrite.rs ::: zoom_item.channel.send(handle).await.expect("Couln't send"); ::: crate::verif_support::env::direct_send(&mut zoom_item.channel, handle);
#[kani::proof]
#[kani::unwind(7)]
#[kani::stub(tokio::runtime::Handle::spawn, fake_spawn_skip)]
#[kani::stub(alloc::vec::Vec::push, push_within_capacity)]
fn c07_zoom_step_size4() {
    zoom_step_with_next(4, 4, 6);
}

fn zoom_step_with_next(size_lo: u32, size_hi: u32, maxlen: u32) {
    let size: u32 = if size_lo == size_hi { size_lo } else { kani::any() };
    kani::assume(size >= size_lo && size <= size_hi);
    let (vs, ve): (u32, u32) = (kani::any(), kani::any());
    kani::assume(vs <= ve && ve - vs <= maxlen && ve < (1u32 << 31));
    let has_live: bool = kani::any();
    let (ls, le, lb): (u32, u32, u32) = (kani::any(), kani::any(), kani::any());
    if has_live {
        kani::assume(ls < le && le - ls < size && le <= vs && lb >= 1 && lb <= le - ls);
    }
    let ns: u32 = kani::any();
    kani::assume(ns >= ve);
    // the live record was built from values of 1.0; the incoming value is 4.0
    let cur = Value { start: vs, end: ve, value: 4.0 };
    let next = Value { start: ns, end: ns, value: 1.0 };
    let mut env = Env::new();
    let (ztx, zrx) = futures::channel::mpsc::channel::<Msg>(4);
    core::mem::forget(zrx);
    let live = if has_live {
        Some(ZoomRecord { chrom: 7, start: ls, end: le, summary: zsum(lb as u64, 1.0) })
    } else {
        None
    };
    let mut zoom_items = Vec::with_capacity(1);
    zoom_items.push(ZoomItem { size, live_info: live, records: Vec::with_capacity(8), channel: ztx });
    let mut options = BBIWriteOptions::default();
    options.items_per_slot = 8;
    options.compress = false;
    let handle: &tokio::runtime::Handle = env.handle();
    let r = poll_once(process_val_zoom(&mut zoom_items, &options, cur, Some(&next), handle, 7));
    assert!(r.is_some(), "[total] process_val_zoom suspended");
    let zi = &zoom_items[0];
    assert!(env.sent() == 0 && env.spawned() == 0, "[no_flush] nothing may be flushed before the slot is full or the chromosome ends");
    // walk records then the live record
    let n = zi.records.len();
    assert!(n <= 5, "[count] more records than the value can span");
    let mut total: u64 = 0;
    let mut prev_end: u32 = 0;
    let mut first = true;
    let mut i = 0;
    while i <= n {
        let rec: Option<ZoomRecord> = if i < n { Some(zi.records[i]) } else { zi.live_info };
        if let Some(rec) = rec {
            assert!(rec.start < rec.end, "[nonempty] empty zoom record");
            assert!(rec.end - rec.start <= size, "[resolution] record longer than the level's resolution");
            assert!(first || rec.start >= prev_end, "[order] records overlap or are out of order");
            assert!(rec.chrom == 7, "[chrom] record chromosome");
            // exact coverage: bases of the record that carry data = its intersection with the value,
            // plus what the continued live record already held
            let a = if rec.start > vs { rec.start } else { vs };
            let b = if rec.end < ve { rec.end } else { ve };
            let inter: u64 = if b > a { (b - a) as u64 } else { 0 };
            let carried: u64 = if first && has_live { lb as u64 } else { 0 };
            if first && has_live {
                assert!(rec.start == ls, "[continue] the live record must be continued, not restarted");
            } else {
                assert!(rec.start >= vs, "[gap] a record starts in the gap before the value (bases without data)");
            }
            assert!(rec.summary.bases_covered == inter + carried, "[bases] covered-base count differs from the data inside the record");
            assert!(rec.summary.sum == (inter * 4 + carried) as f64, "[sum] sum differs from the data inside the record");
            assert!(rec.summary.sum_squares == (inter * 16 + carried) as f64, "[sumsq] sum of squares differs from the data inside the record");
            // min/max over the values that actually have bases inside the record
            let want_min = if carried > 0 { 1.0 } else { 4.0 };
            let want_max = if inter > 0 { 4.0 } else { 1.0 };
            assert!(rec.summary.min_val == want_min && rec.summary.max_val == want_max, "[minmax] min/max differ from the values inside the record's span");
            total += rec.summary.bases_covered;
            prev_end = rec.end;
            first = false;
        }
        i += 1;
    }
    let pre: u64 = if has_live { lb as u64 } else { 0 };
    assert!(total == pre + (ve - vs) as u64, "[total] every base with data lies in exactly one record and no other base is counted");
    if let Some(l) = zi.live_info {
        assert!(l.end - l.start < size || l.end == l.start + size, "[live] live record within resolution");
    }
    let c1 = has_live & (vs > le) & (vs.wrapping_sub(le) > size);
    kani::cover!(c1, "gap longer than the resolution");
    let c2 = n + (zi.live_info.is_some() as usize) >= 3;
    kani::cover!(c2, "value spanning three records");
    let c3 = zi.live_info.is_none() & (ve > vs);
    kani::cover!(c3, "value ending exactly on a record boundary");
    core::mem::forget(zoom_items);
}

fn g32(d: &[u8], o: usize) -> u32 { u32::from_ne_bytes([d[o], d[o + 1], d[o + 2], d[o + 3]]) }
fn g16(d: &[u8], o: usize) -> u16 { u16::from_ne_bytes([d[o], d[o + 1]]) }

// @harness c01_bigwig_section_layout
// @props C01 C09
// @tier quick
// @kind core
// @timeout 900
// @mem 12
// @functions bigwigwrite::encode_section (uncompressed branch)
// @bounds 3 values per section (concrete count), coordinates and value bits full width, chromosome id full width
// @assumes values sorted and disjoint (what process_val accepts)
// @cut zlib branch (libdeflate is C); sections of more than 3 items (the item loop is uniform)
// @witness cover: NaN-payload value bits; adjacent values
#[kani::proof]
#[kani::unwind(5)]
fn c01_bigwig_section_layout() {
    let (s0, e0, s1, e1, s2, e2): (u32, u32, u32, u32, u32, u32) = (kani::any(), kani::any(), kani::any(), kani::any(), kani::any(), kani::any());
    let (b0, b1, b2): (u32, u32, u32) = (kani::any(), kani::any(), kani::any());
    kani::assume(s0 <= e0 && e0 <= s1 && s1 <= e1 && e1 <= s2 && s2 <= e2);
    let chrom: u32 = kani::any();
    let items = vec![
        Value { start: s0, end: e0, value: f32::from_bits(b0) },
        Value { start: s1, end: e1, value: f32::from_bits(b1) },
        Value { start: s2, end: e2, value: f32::from_bits(b2) },
    ];
    let r = poll_once(encode_section(false, items, chrom));
    let ok = match &r {
        Some(Ok((sd, ubs))) => {
            let d = &sd.data;
            // independent decoder, offsets from the format description (section type 1 = bedGraph)
            *ubs == 0 && sd.chrom == chrom && sd.start == s0 && sd.end == e2
                && d.len() == 24 + 3 * 12
                && g32(d, 0) == chrom && g32(d, 4) == s0 && g32(d, 8) == e2
                && g32(d, 12) == 0 && g32(d, 16) == 0
                && d[20] == 1 && d[21] == 0 && g16(d, 22) == 3
                && g32(d, 24) == s0 && g32(d, 28) == e0 && g32(d, 32) == b0
                && g32(d, 36) == s1 && g32(d, 40) == e1 && g32(d, 44) == b1
                && g32(d, 48) == s2 && g32(d, 52) == e2 && g32(d, 56) == b2
        }
        _ => false,
    };
    core::mem::forget(r);
    assert!(ok, "[section_bytes] bigWig section bytes differ from the bedGraph section layout (or values not bit-identical)");
    let c1 = f32::from_bits(b1).is_nan();
    kani::cover!(c1, "NaN payload preserved");
    let c2 = e0 == s1;
    kani::cover!(c2, "adjacent values");
}

// @harness c06_bigwig_summary_step
// @props C06 C01
// @tier quick
// @kind core
// @timeout 900
// @mem 16
// @functions bigwigwrite::process_val (summary update and buffering; a value that is not the last and does not fill the slot)
// @bounds one step from an ARBITRARY running summary (all six fields symbolic, non-NaN); value coordinates full width; the value itself is the constant -2.5 (symbolic*symbolic f64 products did not finish in 10 min of SAT time; with a constant factor they do); items_per_slot 4 with 1 item already buffered
// @stubs tokio Handle::spawn -> counted, not run; mpsc Sender -> always-ready log; alloc::fmt::format -> empty
// @assumes pre-state counters below 2^62 (no u64 overflow of total_items / bases_covered)
// @cut cross-chromosome accumulation (closure inside write_vals); the reference is the same IEEE-754 expression evaluated by the harness
// @witness cover: the value lowers the minimum; zero-length value
#[kani::proof]
#[kani::unwind(3)]
#[kani::stub(tokio::runtime::Handle::spawn, fake_spawn_skip)]
#[kani::stub(futures::channel::mpsc::Sender::poll_ready, fake_poll_ready)]
#[kani::stub(futures::channel::mpsc::Sender::start_send, fake_start_send)]
#[kani::stub(alloc::fmt::format, fake_format)]
fn c06_bigwig_summary_step() {
    summary_step((-2.5f32).to_bits());
}

// @harness c06_bigwig_big_summary_step
// @props C06
// @tier thorough
// @kind stretch
// @timeout 1800
// @mem 16
// @functions as c06_bigwig_summary_step, value 3.0e30 (products overflow f32 but not f64)
// @bounds as c06_bigwig_summary_step
// @stubs as c06_bigwig_summary_step
#[kani::proof]
#[kani::unwind(3)]
#[kani::stub(tokio::runtime::Handle::spawn, fake_spawn_skip)]
#[kani::stub(futures::channel::mpsc::Sender::poll_ready, fake_poll_ready)]
#[kani::stub(futures::channel::mpsc::Sender::start_send, fake_start_send)]
#[kani::stub(alloc::fmt::format, fake_format)]
fn c06_bigwig_big_summary_step() {
    summary_step((3.0e30f32).to_bits());
}

fn summary_step(vb: u32) {
    let (cs, ce, ns): (u32, u32, u32) = (kani::any(), kani::any(), kani::any());
    let v = f32::from_bits(vb);
    kani::assume(cs <= ce && ce <= ns);
    let (ti, bc): (u64, u64) = (kani::any(), kani::any());
    kani::assume(ti < (1u64 << 62) && bc < (1u64 << 62));
    let (mn, mx, sm, sq): (f64, f64, f64, f64) = (kani::any(), kani::any(), kani::any(), kani::any());
    kani::assume(!mn.is_nan() && !mx.is_nan() && !sm.is_nan() && !sq.is_nan());
    let mut summary = Summary { total_items: ti, bases_covered: bc, min_val: mn, max_val: mx, sum: sm, sum_squares: sq };
    let cur = Value { start: cs, end: ce, value: v };
    let next = Value { start: ns, end: ns, value: 0.0 };
    let mut env = Env::new();
    let chrom = String::new();
    let mut items: Vec<Value> = Vec::with_capacity(4);
    items.push(Value { start: 0, end: 0, value: 0.0 });
    let mut options = BBIWriteOptions::default();
    options.items_per_slot = 4;
    options.compress = false;
    let handle: &tokio::runtime::Handle = env.handle();
    let r = poll_once(process_val(cur, Some(&next), u32::MAX, &chrom, &mut summary, &mut items, &options, handle, &mut env.tx, 7));
    let okr = match &r { Some(Ok(())) => true, _ => false };
    core::mem::forget(r);
    assert!(okr, "[accepted] a valid value was refused");
    let len = ce - cs;
    let val = v as f64;
    assert!(summary.total_items == ti + 1, "[items] item count");
    assert!(summary.bases_covered == bc + len as u64, "[bases] covered bases must grow by the value's length");
    assert!(summary.min_val == mn.min(val) && summary.max_val == mx.max(val), "[minmax] running min/max");
    let want_sum = sm + (len as f64) * val;
    let want_sq = sq + (len as f64) * val * val;
    assert!(summary.sum == want_sum || (summary.sum.is_nan() && want_sum.is_nan()), "[sum] sum must grow by length*value");
    assert!(summary.sum_squares == want_sq || (summary.sum_squares.is_nan() && want_sq.is_nan()), "[sumsq] sum of squares must grow by length*value^2");
    assert!(items.len() == 2 && items[1].start == cs && items[1].end == ce && items[1].value.to_bits() == vb, "[buffered] value buffered unchanged, in order");
    assert!(env.spawned() == 0, "[no_flush] no section may be emitted before the slot is full");
    let c1 = val < mn;
    kani::cover!(c1, "value lowers the minimum");
    let c1b = val > mx;
    kani::cover!(c1b, "value raises the maximum");
    let c2 = len == 0;
    kani::cover!(c2, "zero-length value");
    core::mem::forget(items);
    core::mem::forget(chrom);
}

// @harness c01_bigwig_section_split
// @props C01
// @tier quick
// @kind core
// @timeout 1200
// @mem 16
// @functions bigwigwrite::process_val (slot-full and last-value flush) -> bigwigwrite::encode_section
// @bounds items_per_slot 2 with one value already buffered; the incoming value is either the slot-filling one (next exists) or the last of the chromosome; coordinates / value bits full width
// @stubs tokio Handle::spawn -> run now; mpsc Sender -> always-ready FIFO log; alloc::fmt::format -> empty
// @cut assembly of sections into the file (write_data / write_chroms_*: tokio tasks)
// @witness cover: flush because the slot is full; flush because the chromosome ends
#[kani::proof]
#[kani::unwind(4)]
#[kani::stub(tokio::runtime::Handle::spawn, fake_spawn)]
#[kani::stub(futures::channel::mpsc::Sender::poll_ready, fake_poll_ready)]
#[kani::stub(futures::channel::mpsc::Sender::start_send, fake_start_send)]
#[kani::stub(alloc::fmt::format, fake_format)]
fn c01_bigwig_section_split() {
    let (ps, pe, cs, ce, ns): (u32, u32, u32, u32, u32) = (kani::any(), kani::any(), kani::any(), kani::any(), kani::any());
    let (pb, cb): (u32, u32) = (kani::any(), kani::any());
    let has_next: bool = kani::any();
    kani::assume(ps <= pe && pe <= cs && cs <= ce && ce <= ns);
    let mut summary = Summary { total_items: 1, bases_covered: 0, min_val: 0.0, max_val: 0.0, sum: 0.0, sum_squares: 0.0 };
    let cur = Value { start: cs, end: ce, value: f32::from_bits(cb) };
    let next = Value { start: ns, end: ns, value: 0.0 };
    let mut env = Env::new();
    let chrom = String::new();
    let mut items: Vec<Value> = Vec::with_capacity(2);
    items.push(Value { start: ps, end: pe, value: f32::from_bits(pb) });
    let mut options = BBIWriteOptions::default();
    options.items_per_slot = 2;
    options.compress = false;
    let handle: &tokio::runtime::Handle = env.handle();
    let r = poll_once(process_val(cur, if has_next { Some(&next) } else { None }, u32::MAX, &chrom, &mut summary, &mut items, &options, handle, &mut env.tx, 9));
    let okr = match &r { Some(Ok(())) => true, _ => false };
    core::mem::forget(r);
    assert!(okr, "[accepted] a valid value was refused");
    assert!(items.is_empty(), "[drained] values left behind after a flush");
    assert!(env.sent() == 1, "[one_section] exactly one section must be handed off");
    let out = env.take();
    let ok = match &out {
        Some(Ok((sd, _))) => {
            let d = &sd.data;
            sd.chrom == 9 && sd.start == ps && sd.end == ce && d.len() == 24 + 24 && g16(d, 22) == 2
                && g32(d, 24) == ps && g32(d, 28) == pe && g32(d, 32) == pb
                && g32(d, 36) == cs && g32(d, 40) == ce && g32(d, 44) == cb
        }
        _ => false,
    };
    core::mem::forget(out);
    assert!(ok, "[section_content] the flushed section does not hold exactly the buffered values, in order");
    kani::cover!(has_next, "slot full");
    let c2 = !has_next;
    kani::cover!(c2, "chromosome end");
    core::mem::forget(items);
    core::mem::forget(chrom);
}
