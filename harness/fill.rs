use super::*;

// @harness c15_fill_tiling
// @props C15
// @tier quick
// @kind core
// @timeout 900
// @mem 12
// @functions utils::fill::fill_start_to_end, FillValues::next (instantiated with an array iterator)
// @bounds stream of 0..=2 sorted disjoint non-empty values, coordinates full u32 width, values any f32 bits; requested [start,end) arbitrary with start <= first value's start
// @assumes input sorted and disjoint (v1.end <= v2.start), start <= v1.start
// @cut error items (passed through unchanged: see c15_fill_error_passthrough)
// @witness cover: leading, middle and trailing gaps all present; no gaps at all
#[kani::proof]
#[kani::unwind(8)]
fn c15_fill_tiling() {
    let n: u8 = kani::any();
    kani::assume(n <= 2);
    let (s1, e1, s2, e2): (u32, u32, u32, u32) = (kani::any(), kani::any(), kani::any(), kani::any());
    let (b1, b2): (u32, u32) = (kani::any(), kani::any());
    let (start, end): (u32, u32) = (kani::any(), kani::any());
    kani::assume(s1 < e1 && e1 <= s2 && s2 < e2);
    kani::assume(start <= end);
    if n >= 1 { kani::assume(start <= s1); }
    let v1 = Value { start: s1, end: e1, value: f32::from_bits(b1) };
    let v2 = Value { start: s2, end: e2, value: f32::from_bits(b2) };
    let items: [Option<io::Result<Value>>; 2] = [
        if n >= 1 { Some(Ok(v1)) } else { None },
        if n >= 2 { Some(Ok(v2)) } else { None },
    ];
    let mut it = fill_start_to_end(items.into_iter().flatten(), start, end);
    let mut cursor = start;
    let mut seen1 = false;
    let mut seen2 = false;
    let mut zeros = 0u8;
    let mut k = 0;
    let mut done = false;
    while k < 6 {
        if !done {
            match it.next() {
                None => { done = true; }
                Some(Ok(o)) => {
                    assert!(o.start == cursor, "[gapless] output piece does not start where the previous ended");
                    assert!(o.start < o.end, "[nonempty] empty output piece");
                    cursor = o.end;
                    let is1 = n >= 1 && !seen1 && o.start == s1 && o.end == e1 && o.value.to_bits() == b1;
                    let is2 = n >= 2 && seen1 && !seen2 && o.start == s2 && o.end == e2 && o.value.to_bits() == b2;
                    if is1 { seen1 = true; }
                    else if is2 { seen2 = true; }
                    else {
                        assert!(o.value.to_bits() == 0, "[only_zeros] an added piece is not a zero");
                        // an added piece must lie in a gap
                        let in1 = n >= 1 && o.start < e1 && o.end > s1;
                        let in2 = n >= 2 && o.start < e2 && o.end > s2;
                        assert!(!in1 && !in2, "[no_overwrite] an added zero overlaps an original value");
                        zeros += 1;
                    }
                }
                Some(Err(e)) => { core::mem::forget(e); assert!(false, "[no_err] error produced from an error-free stream"); }
            }
        }
        k += 1;
    }
    assert!(done, "[terminates] more output pieces than values + gaps");
    assert!((n < 1 || seen1) && (n < 2 || seen2), "[keeps] an original value is missing from the output");
    let last_end = if n >= 2 { e2 } else if n >= 1 { e1 } else { start };
    let want_end = if end > last_end { end } else { last_end };
    assert!(cursor == want_end, "[reach_end] output does not reach the requested end");
    let c1 = zeros == 3;
    kani::cover!(c1, "three gaps filled");
    let c2 = (zeros == 0) & (n == 2);
    kani::cover!(c2, "no gaps");
    core::mem::forget(it);
}
