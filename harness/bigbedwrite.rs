use super::*;
use crate::verif_support::*;
use crate::verif_support::env::*;

fn entry(start: u32, end: u32) -> BedEntry {
    BedEntry { start, end, rest: String::from("x") }
}

// @harness c04_bigbed_section_span
// @props C04 C09
// @tier quick
// @kind core
// @timeout 600
// @mem 12
// @functions bigbedwrite::encode_section (uncompressed branch)
// @bounds 3 entries per block (concrete count), coordinates full u32 width, empty rest fields
// @assumes entries start-sorted with start<=end (what the writer accepts)
// @cut zlib branch (libdeflate is C); rest-field bytes (see c02 harnesses)
// @witness cover: a block whose largest end is not the last entry's end
#[kani::proof]
#[kani::unwind(5)]
fn c04_bigbed_section_span() {
    // scalars, not arrays: symbolic arrays indexed in loops cost 30x in the SAT encoding (measured)
    let (s0, s1, s2): (u32, u32, u32) = (kani::any(), kani::any(), kani::any());
    let (e0, e1, e2): (u32, u32, u32) = (kani::any(), kani::any(), kani::any());
    kani::assume(s0 <= s1 && s1 <= s2);
    kani::assume(s0 <= e0 && s1 <= e1 && s2 <= e2);
    let chrom: u32 = kani::any();
    let items = vec![entry(s0, e0), entry(s1, e1), entry(s2, e2)];
    let r = poll_once(encode_section(false, items, chrom));
    let (ok, sd_chrom, sd_start, sd_end, ubs) = match &r {
        Some(Ok((sd, ubs))) => (true, sd.chrom, sd.start, sd.end, *ubs),
        _ => (false, 0, 0, 0, 0),
    };
    core::mem::forget(r);
    assert!(ok, "[total] encode_section did not return Ok");
    assert!(sd_chrom == chrom, "[chrom] section chromosome");
    assert!(ubs == 0, "[ubs] uncompressed size must be 0 when not compressing");
    assert!(sd_start <= s0 && sd_start <= s1 && sd_start <= s2, "[span_start] block span starts after one of its entries");
    assert!(sd_end >= e0 && sd_end >= e1 && sd_end >= e2, "[span_end] block span ends before one of its entries ends");
    kani::cover!(e0 > e2, "long entry followed by short ones");
}

// @harness c13_bigbed_accept_predicate
// @props C13
// @tier quick
// @kind core
// @timeout 900
// @mem 16
// @functions bigbedwrite::process_val (acceptance checks and the accepted path up to section hand-off)
// @bounds one call from the empty per-chromosome state; all coordinates and the chromosome length full u32 width; items_per_slot = 2
// @stubs tokio Handle::spawn -> run now; mpsc Sender::poll_ready/start_send -> always ready FIFO log; alloc::fmt::format -> empty string; index_list::IndexList -> 4-slot sequence model (support.rs ilist) by one source substitution of the `use` line
// @sub src/bbi/bigbedwrite.rs ::: use index_list::IndexList; ::: use crate::verif_support::ilist::IndexList;
// @cut refusal as seen through write()/JoinHandles; unknown chromosome / chromosome order (closures inside write_vals)
// @witness cover: accepted and each refusal class reachable
#[kani::proof]
#[kani::unwind(8)]
#[kani::stub(tokio::runtime::Handle::spawn, fake_spawn)]
#[kani::stub(futures::channel::mpsc::Sender::poll_ready, fake_poll_ready)]
#[kani::stub(futures::channel::mpsc::Sender::start_send, fake_start_send)]
#[kani::stub(alloc::fmt::format, fake_format)]
fn c13_bigbed_accept_predicate() {
    let (cs, ce, ns, ne, len): (u32, u32, u32, u32, u32) = (kani::any(), kani::any(), kani::any(), kani::any(), kani::any());
    let has_next: bool = kani::any();
    let cur = entry(cs, ce);
    let next = entry(ns, ne);
    let mut env = Env::new();
    let chrom = String::new();
    let mut summary: Option<Summary> = None;
    let mut items: Vec<BedEntry> = Vec::with_capacity(2);
    let mut overlap: IndexList<Value> = IndexList::new();
    let mut options = BBIWriteOptions::default();
    options.items_per_slot = 2;
    options.compress = false;
    let handle: &tokio::runtime::Handle = env.handle();
    let r = poll_once(process_val(
        cur,
        if has_next { Some(&next) } else { None },
        len,
        &chrom,
        &mut summary,
        &mut items,
        &mut overlap,
        &options,
        handle,
        &mut env.tx,
        7,
    ));
    let (done, is_err) = match &r {
        Some(Ok(())) => (true, false),
        Some(Err(_)) => (true, true),
        None => (false, false),
    };
    core::mem::forget(r);
    assert!(done, "[total] process_val suspended");
    // the writer's documented refusal classes for one bigBed entry
    let bad = cs > ce || cs >= len || (has_next && cs > ns);
    assert!(is_err == bad, "[accept_iff] Err must be returned exactly for unrepresentable input");
    if is_err {
        assert!(items.is_empty() && env.sent() == 0, "[refuse_clean] a refused entry must leave no trace");
    }
    kani::cover!(!is_err && has_next, "accepted with a next value");
    kani::cover!(!is_err && !has_next, "accepted last value");
    kani::cover!(cs > ce, "start beyond end");
    kani::cover!(cs <= ce && cs >= len, "start beyond chromosome");
    kani::cover!(cs <= ce && cs < len && has_next && cs > ns, "out of order");
    core::mem::forget(items);
    core::mem::forget(overlap);
    core::mem::forget(next);
    core::mem::forget(chrom);
}


fn g32(d: &[u8], o: usize) -> u32 { u32::from_ne_bytes([d[o], d[o + 1], d[o + 2], d[o + 3]]) }

// @harness c02_bigbed_section_layout
// @props C02 C09
// @tier quick
// @kind core
// @timeout 900
// @mem 12
// @rss 12
// @functions bigbedwrite::encode_section (uncompressed branch)
// @bounds 2 entries per block; coordinates full width; rest fields of length 2 and 0 with symbolic non-NUL bytes
// @assumes entries start-sorted with start <= end; rest bytes non-NUL ASCII
// @cut zlib branch; longer rest fields (byte copy is uniform)
// @witness cover: zero-length entry at position 0; nested second entry
#[kani::proof]
#[kani::unwind(5)]
fn c02_bigbed_section_layout() {
    let (s0, e0, s1, e1): (u32, u32, u32, u32) = (kani::any(), kani::any(), kani::any(), kani::any());
    kani::assume(s0 <= s1 && s0 <= e0 && s1 <= e1);
    let (r0, r1): (u8, u8) = (kani::any(), kani::any());
    kani::assume(r0 != 0 && r0 < 0x80 && r1 != 0 && r1 < 0x80);
    let chrom: u32 = kani::any();
    let mut rest0 = String::with_capacity(2);
    rest0.push(r0 as char);
    rest0.push(r1 as char);
    let items = vec![
        BedEntry { start: s0, end: e0, rest: rest0 },
        BedEntry { start: s1, end: e1, rest: String::new() },
    ];
    let r = poll_once(encode_section(false, items, chrom));
    let ok = match &r {
        Some(Ok((sd, ubs))) => {
            let d = &sd.data;
            *ubs == 0 && sd.chrom == chrom && sd.start == s0
                && d.len() == 12 + 3 + 12 + 1
                && g32(d, 0) == chrom && g32(d, 4) == s0 && g32(d, 8) == e0
                && d[12] == r0 && d[13] == r1 && d[14] == 0
                && g32(d, 15) == chrom && g32(d, 19) == s1 && g32(d, 23) == e1
                && d[27] == 0
        }
        _ => false,
    };
    core::mem::forget(r);
    assert!(ok, "[section_bytes] bigBed block bytes differ from the (chrom,start,end,rest,NUL) layout");
    let c1 = (s0 == 0) & (e0 == 0);
    kani::cover!(c1, "zero-length entry at 0");
    let c2 = e1 < e0;
    kani::cover!(c2, "nested entry");
}


// @harness c06_bigbed_depth_sweep
// @props C06
// @tier quick
// @kind core
// @timeout 1800
// @mem 24
// @functions bigbedwrite::process_val (coverage-depth sweep `add_interval_to_summary`), two consecutive calls from the empty per-chromosome state
// @bounds 2 entries with coordinates in 0..=12, start-sorted, any overlap relation (disjoint, touching, partially overlapping, nested, identical, zero-length), followed by a third entry whose start ns (symbolic, s1..=12) cuts the sweep: the summary must then hold exactly the statistics of the bases below ns; items_per_slot 4
// @stubs tokio Handle::spawn -> counted/discarded; mpsc Sender -> always-ready log; alloc::fmt::format -> empty; index_list::IndexList -> 4-slot sequence model (support.rs ilist) by one source substitution of the `use` line
// @sub src/bbi/bigbedwrite.rs ::: use index_list::IndexList; ::: use crate::verif_support::ilist::IndexList;
// @cut cross-chromosome accumulation; more than 2 entries; coordinates > 12 (the sweep compares and subtracts coordinates only)
// @witness cover: partially overlapping entries; nested entries; disjoint entries
#[kani::proof]
#[kani::unwind(14)]
#[kani::stub(tokio::runtime::Handle::spawn, fake_spawn_skip)]
#[kani::stub(futures::channel::mpsc::Sender::poll_ready, fake_poll_ready)]
#[kani::stub(futures::channel::mpsc::Sender::start_send, fake_start_send)]
#[kani::stub(alloc::fmt::format, fake_format)]
fn c06_bigbed_depth_sweep() {
    let (s0, e0, s1, e1): (u32, u32, u32, u32) = (kani::any(), kani::any(), kani::any(), kani::any());
    kani::assume(s0 <= e0 && s1 <= e1 && s0 <= s1 && e0 <= 12 && e1 <= 12);
    let mut env = Env::new();
    let chrom = String::new();
    let mut summary: Option<Summary> = None;
    let mut items: Vec<BedEntry> = Vec::with_capacity(4);
    let mut overlap: IndexList<Value> = IndexList::new();
    let mut options = BBIWriteOptions::default();
    options.items_per_slot = 4;
    options.compress = false;
    let handle: &tokio::runtime::Handle = env.handle();
    let second = entry(s1, e1);
    let r0 = poll_once(process_val(entry(s0, e0), Some(&second), 100, &chrom, &mut summary, &mut items, &mut overlap, &options, handle, &mut env.tx, 7));
    let ok0 = match &r0 { Some(Ok(())) => true, _ => false };
    core::mem::forget(r0);
    let ns: u32 = kani::any();
    kani::assume(ns >= s1 && ns <= 12);
    let third = entry(ns, 12);
    let r1 = poll_once(process_val(entry(s1, e1), Some(&third), 100, &chrom, &mut summary, &mut items, &mut overlap, &options, handle, &mut env.tx, 7));
    let ok1 = match &r1 { Some(Ok(())) => true, _ => false };
    core::mem::forget(r1);
    assert!(ok0 && ok1, "[accepted] valid entries refused");
    // oracle: per-base coverage depth on 0..12
    let mut bases: u64 = 0;
    let mut sum: u64 = 0;
    let mut sumsq: u64 = 0;
    let mut mn: u64 = 99;
    let mut mx: u64 = 0;
    let mut x: u32 = 0;
    while x < 12 {
        let d = if x < ns { ((s0 <= x && x < e0) as u64) + ((s1 <= x && x < e1) as u64) } else { 0 };
        if d > 0 {
            bases += 1;
            sum += d;
            sumsq += d * d;
            if d < mn { mn = d; }
            if d > mx { mx = d; }
        }
        x += 1;
    }
    let (gb, gmn, gmx, gs, gq, some) = match &summary {
        Some(s) => (s.bases_covered, s.min_val, s.max_val, s.sum, s.sum_squares, true),
        None => (0, 0.0, 0.0, 0.0, 0.0, false),
    };
    if bases == 0 {
        assert!(!some || gb == 0, "[empty] bases counted although nothing is covered");
    } else {
        assert!(some, "[present] covered bases but no summary");
        assert!(gb == bases, "[bases] covered bases: each covered base must be counted exactly once");
        assert!(gs == sum as f64, "[sum] sum of depth over covered bases");
        assert!(gq == sumsq as f64, "[sumsq] sum of squared depth");
        assert!(gmn == mn as f64 && gmx == mx as f64, "[minmax] min/max depth");
    }
    let c1 = (s1 < e0) & (e1 > e0) & (s0 < s1);
    kani::cover!(c1, "partially overlapping");
    let c2 = (s0 < s1) & (e1 < e0);
    kani::cover!(c2, "nested");
    let c3 = (e0 < s1) & (s0 < e0) & (s1 < e1);
    kani::cover!(c3, "disjoint");
    let c4 = (ns > s1) & (ns < e0) & (ns < e1) & (e0 != e1);
    kani::cover!(c4, "third entry starts inside the overlap of the first two");
    core::mem::forget(items);
    core::mem::forget(overlap);
    core::mem::forget(third);
    core::mem::forget(second);
    core::mem::forget(chrom);
}

fn depth_at(x: u32, s0: u32, e0: u32, s1: u32, e1: u32) -> u64 {
    ((s0 <= x && x < e0) as u64) + ((s1 <= x && x < e1) as u64)
}

/// statistics (covered bases, sum, sum of squares, min, max) of the depth function over [lo,hi) within
/// 0..10 - unrolled by hand so that the harness needs no long loop (the unwinding bound is global)
fn depth_stats(lo: u32, hi: u32, s0: u32, e0: u32, s1: u32, e1: u32) -> (u64, u64, u64, u64, u64) {
    let (mut b, mut sm, mut sq, mut mn, mut mx): (u64, u64, u64, u64, u64) = (0, 0, 0, 99, 0);
    macro_rules! at {
        ($x:expr) => {
            if lo <= $x && $x < hi {
                let d = depth_at($x, s0, e0, s1, e1);
                if d > 0 {
                    b += 1; sm += d; sq += d * d;
                    if d < mn { mn = d; }
                    if d > mx { mx = d; }
                }
            }
        };
    }
    at!(0); at!(1); at!(2); at!(3); at!(4); at!(5); at!(6); at!(7); at!(8); at!(9);
    (b, sm, sq, mn, mx)
}

// @harness c08_bigbed_zoom_two_entries
// @props C08
// @tier thorough
// @kind stretch
// @timeout 5400
// @mem 40
// @rss 32
// @functions bigbedwrite::process_val_zoom (coverage sweep + tiling into zoom records), two consecutive calls from the empty per-chromosome state, one zoom level
// @bounds 2 entries with coordinates in 0..=7, start-sorted, any overlap relation; a third entry to the right (start 9) keeps the chromosome open; resolution 3; items_per_slot 8 (no mid-way flush)
// @stubs tokio Handle::spawn -> counted/discarded; mpsc Sender -> always-ready log; Vec::push -> push within capacity (asserted); index_list::IndexList -> 4-slot sequence model by one source substitution of the `use` line; mpsc Sender::poll_ready/start_send -> always-ready log. (The await points inside the sweep loops make the coroutine lowering merge the nested loop heads, so the single unwinding bound of 24 is a budget for the TOTAL number of sweep/tiling iterations of one call; removing the awaits by substitution un-merges the loops and the nested unwinding ran out of memory)
// @sub src/bbi/bigbedwrite.rs ::: use index_list::IndexList; ::: use crate::verif_support::ilist::IndexList; ||| src/bbi/bigbedwrite.rs ::: zoom_item.channel.send(handle).await.expect("Couln't send"); ::: crate::verif_support::env::direct_send(&mut zoom_item.channel, handle); ::: 2
// @cut end-of-chromosome flush (see c08_bigbed_zoom_last); more than 2 entries; other resolutions; f32 narrowing (c09_zoom_section_layout)
// @witness cover: partially overlapping entries; a gap of at least the resolution; nested entries
#[kani::proof]
#[kani::unwind(6)]
#[kani::stub(tokio::runtime::Handle::spawn, fake_spawn_skip)]
#[kani::stub(alloc::vec::Vec::push, push_within_capacity)]
fn c08_bigbed_zoom_two_entries() {
    let size: u32 = 3;
    let (s0, e0, s1, e1): (u32, u32, u32, u32) = (kani::any(), kani::any(), kani::any(), kani::any());
    kani::assume(s0 <= e0 && s1 <= e1 && s0 <= s1 && e0 <= 7 && e1 <= 7);
    let mut env = Env::new();
    let (ztx, zrx) = futures::channel::mpsc::channel::<Msg>(4);
    core::mem::forget(zrx);
    let mut zoom_items = Vec::with_capacity(1);
    zoom_items.push(ZoomItem { size, live_info: None, overlap: IndexList::new(), records: Vec::with_capacity(8), channel: ztx });
    let mut options = BBIWriteOptions::default();
    options.items_per_slot = 8;
    options.compress = false;
    let handle: &tokio::runtime::Handle = env.handle();
    let second = entry(s1, e1);
    let far = entry(9, 10);
    let r0 = poll_once(process_val_zoom(&mut zoom_items, &options, s0, e0, Some(&second), handle, 7));
    let ok0 = match &r0 { Some(Ok(())) => true, _ => false };
    core::mem::forget(r0);
    let r1 = poll_once(process_val_zoom(&mut zoom_items, &options, s1, e1, Some(&far), handle, 7));
    let ok1 = match &r1 { Some(Ok(())) => true, _ => false };
    core::mem::forget(r1);
    assert!(ok0 && ok1, "[total] process_val_zoom failed or suspended");
    assert!(env.spawned() == 0, "[no_flush] nothing may be flushed before the slot is full or the chromosome ends");
    let zi = &zoom_items[0];
    assert!(zi.overlap.len() == 0, "[swept] coverage left of the next entry must be fully swept into records");
    let n = zi.records.len();
    assert!(n <= 4, "[count] more records than 8 bases at resolution 3 can need");
    // oracle totals
    let (tot_bases, _, _, _, _) = depth_stats(0, 10, s0, e0, s1, e1);
    let mut got_bases: u64 = 0;
    let mut prev_end: u32 = 0;
    let mut first = true;
    let mut i = 0;
    while i <= n {
        let rec: Option<ZoomRecord> = if i < n { Some(zi.records[i]) } else { zi.live_info.map(|l| l.0) };
        if let Some(rec) = rec {
            assert!(rec.start < rec.end && rec.end <= 10, "[nonempty] empty or out-of-range zoom record");
            assert!(rec.end - rec.start <= size, "[resolution] record longer than the level's resolution");
            assert!(first || rec.start >= prev_end, "[order] records overlap or are out of order");
            // statistics of the depth function inside the record's span
            let (b, sm, sq, mn, mx) = depth_stats(rec.start, rec.end, s0, e0, s1, e1);
            assert!(rec.summary.bases_covered == b, "[bases] a record's covered-base count differs from the covered bases in its span (uncovered bases counted, or covered ones missed)");
            assert!(b > 0, "[useless] a record without any covered base");
            assert!(rec.summary.sum == sm as f64, "[sum] a record's sum differs from the depth inside its span");
            assert!(rec.summary.sum_squares == sq as f64, "[sumsq] sum of squares");
            assert!(rec.summary.min_val == mn as f64 && rec.summary.max_val == mx as f64, "[minmax] min/max depth");
            got_bases += b;
            prev_end = rec.end;
            first = false;
        }
        i += 1;
    }
    assert!(got_bases == tot_bases, "[exactly_once] every covered base must lie in exactly one record");
    let c1 = (s0 < s1) & (s1 < e0) & (e0 < e1);
    kani::cover!(c1, "partially overlapping");
    let c2 = (e0 < s1) & (s1.wrapping_sub(e0) >= 3) & (s0 < e0) & (s1 < e1);
    kani::cover!(c2, "gap of at least the resolution");
    let c3 = (s0 < s1) & (e1 < e0) & (s1 < e1);
    kani::cover!(c3, "nested");
    core::mem::forget(zoom_items);
    core::mem::forget(second);
    core::mem::forget(far);
}

// @harness c02_bigbed_item_count
// @props C02 C06
// @tier off
// @kind core
// @timeout 1500
// @mem 24
// @functions BigBedFullProcess::do_process (item counter; calls process_val and process_val_zoom with no zoom levels)
// @bounds 1 entry (followed by another one) from the empty per-chromosome state, coordinates in 0..=12, zero-length entries included; items_per_slot 4 (two consecutive calls ran out of memory during symbolic execution)
// @stubs tokio Handle::spawn -> counted/discarded; mpsc Sender -> always-ready log; alloc::fmt::format -> empty; index_list::IndexList -> 4-slot sequence model by one source substitution of the `use` line
// @sub src/bbi/bigbedwrite.rs ::: use index_list::IndexList; ::: use crate::verif_support::ilist::IndexList;
// @cut BigBedNoZoomsProcess (the two-pass twin has the same counter line); destroy() (copies the counter into the summary) and write_info (c09_header_layout places it)
// @witness cover: a zero-length entry is counted
#[kani::proof]
#[kani::unwind(8)]
#[kani::stub(tokio::runtime::Handle::spawn, fake_spawn_skip)]
#[kani::stub(futures::channel::mpsc::Sender::poll_ready, fake_poll_ready)]
#[kani::stub(futures::channel::mpsc::Sender::start_send, fake_start_send)]
#[kani::stub(alloc::fmt::format, fake_format)]
fn c02_bigbed_item_count() {
    let (s0, e0, s1, e1): (u32, u32, u32, u32) = (kani::any(), kani::any(), kani::any(), kani::any());
    kani::assume(s0 <= e0 && s1 <= e1 && s0 <= s1 && e0 <= 12 && e1 <= 12);
    let env = Env::new();
    let (ftx, _frx) = futures::channel::mpsc::channel::<Msg>(4);
    let mut options = BBIWriteOptions::default();
    options.items_per_slot = 4;
    options.compress = false;
    let mut p = core::mem::ManuallyDrop::new(BigBedFullProcess {
        summary: None,
        state_val: EntriesSection { items: Vec::with_capacity(4), overlap: IndexList::new(), zoom_items: Vec::new() },
        total_items: 0,
        ftx,
        chrom_id: 3,
        options,
        runtime: env.handle_owned(),
        chrom: String::new(),
        length: 100,
    });
    let second = entry(s1, e1);
    let third = entry(20, 21);
    let r0 = poll_once(p.do_process(entry(s0, e0), Some(&second)));
    let ok0 = match &r0 { Some(Ok(())) => true, _ => false };
    core::mem::forget(r0);
    assert!(ok0, "[accepted] valid entry refused");
    assert!(p.total_items == 1, "[item_count] the item counter must equal the number of entries processed, whatever their length");
    assert!(p.state_val.items.len() == 1, "[buffered] the entry is buffered for its block");
    let c1 = s0 == e0;
    kani::cover!(c1, "zero-length entry");
    core::mem::forget(second);
    core::mem::forget(third);
}

// @harness c02_bigbed_item_count_nozooms
// @props C02 C06
// @tier off
// @kind core
// @timeout 1800
// @mem 44
// @functions BigBedNoZoomsProcess::do_process (item counter; process_val; zoom-size counters with no zoom level configured)
// @bounds 1 entry (followed by another one) from the empty per-chromosome state, coordinates in 0..=12, zero-length entries included; items_per_slot 4
// @stubs tokio Handle::spawn -> counted/discarded; mpsc Sender -> always-ready log; alloc::fmt::format -> empty; index_list::IndexList -> 4-slot sequence model by one source substitution
// @sub src/bbi/bigbedwrite.rs ::: use index_list::IndexList; ::: use crate::verif_support::ilist::IndexList;
// @cut BigBedFullProcess (the single-pass twin has the same counter line; its harness c02_bigbed_item_count does not finish); destroy() (copies the counter into the summary) and write_info (c09_header_layout places it)
// @witness cover: a zero-length entry is counted
#[kani::proof]
#[kani::unwind(8)]
#[kani::stub(tokio::runtime::Handle::spawn, fake_spawn_skip)]
#[kani::stub(futures::channel::mpsc::Sender::poll_ready, fake_poll_ready)]
#[kani::stub(futures::channel::mpsc::Sender::start_send, fake_start_send)]
#[kani::stub(alloc::fmt::format, fake_format)]
fn c02_bigbed_item_count_nozooms() {
    let (s0, e0, s1, e1): (u32, u32, u32, u32) = (kani::any(), kani::any(), kani::any(), kani::any());
    kani::assume(s0 <= e0 && s1 <= e1 && s0 <= s1 && e0 <= 12 && e1 <= 12);
    let env = Env::new();
    let ftx = unsafe { core::ptr::read(&env.tx) };
    let mut options = BBIWriteOptions::default();
    options.items_per_slot = 4;
    options.compress = false;
    let mut p = core::mem::ManuallyDrop::new(BigBedNoZoomsProcess {
        ftx,
        chrom_id: 3,
        options,
        runtime: env.handle_owned(),
        chrom: String::new(),
        length: 100,
        summary: None,
        items: Vec::with_capacity(4),
        overlap: IndexList::new(),
        zoom_counts: Vec::new(),
        total_items: 0,
    });
    let second = entry(s1, e1);
    let r0 = poll_once(p.do_process(entry(s0, e0), Some(&second)));
    let ok0 = match &r0 { Some(Ok(())) => true, _ => false };
    core::mem::forget(r0);
    assert!(ok0, "[accepted] valid entry refused");
    assert!(p.total_items == 1, "[item_count] the item counter must equal the number of entries processed, whatever their length");
    assert!(p.items.len() == 1, "[buffered] the entry is buffered for its block");
    let c1 = s0 == e0;
    kani::cover!(c1, "zero-length entry");
    core::mem::forget(second);
}

fn depth2_at(x: u32, a0: u32, a1: u32, a2: u32, d1: u64, d2: u64, np: u8, is: u32, ie: u32) -> u64 {
    let base = if np >= 1 && a0 <= x && x < a1 { d1 } else if np >= 2 && a1 <= x && x < a2 { d2 } else { 0 };
    base + ((is <= x && x < ie) as u64)
}
/// (covered bases, sum, sum of squares, min, max) of the post-step depth over [lo,hi) within 0..8
fn depth2_stats(lo: u32, hi: u32, a0: u32, a1: u32, a2: u32, d1: u64, d2: u64, np: u8, is: u32, ie: u32) -> (u64, u64, u64, u64, u64) {
    let (mut b, mut sm, mut sq, mut mn, mut mx): (u64, u64, u64, u64, u64) = (0, 0, 0, 99, 0);
    macro_rules! at {
        ($x:expr) => {
            if lo <= $x && $x < hi {
                let d = depth2_at($x, a0, a1, a2, d1, d2, np, is, ie);
                if d > 0 {
                    b += 1; sm += d; sq += d * d;
                    if d < mn { mn = d; }
                    if d > mx { mx = d; }
                }
            }
        };
    }
    at!(0); at!(1); at!(2); at!(3); at!(4); at!(5); at!(6); at!(7);
    (b, sm, sq, mn, mx)
}

// @harness c08_bigbed_zoom_step
// @props C08
// @tier thorough
// @kind core
// @timeout 3600
// @mem 40
// @rss 28
// @functions bigbedwrite::process_val_zoom (coverage sweep + tiling into zoom records): ONE call from an ARBITRARY valid per-level state
// @bounds (number of tracked pieces symbolic) pre-state: tracked coverage = 0..=2 contiguous pieces starting at the entry's start with strictly decreasing positive depths (what the sweep leaves behind), live zoom record absent or any record satisfying the invariant (ends at or before the entry's start, shorter than the resolution, 1..=len covered bases, depth statistics 1..=3); entry [is,ie) with is <= 4, all coordinates <= 7; the next entry starts at 12 (everything is swept); resolution 3; items_per_slot 8
// @assumes representation invariant as stated; depths <= 3
// @stubs tokio Handle::spawn -> counted/discarded (asserted not to happen); the two channel hand-offs `zoom_item.channel.send(handle).await.expect(..)` -> `direct_send(..)` by source substitution (with the await points left in, the coroutine lowering merges the nested loop heads and no unwinding budget up to 24 sufficed); Vec::push -> within capacity (asserted); index_list::IndexList -> 4-slot sequence model by one source substitution of the `use` line
// @sub src/bbi/bigbedwrite.rs ::: use index_list::IndexList; ::: use crate::verif_support::ilist::IndexList; ||| src/bbi/bigbedwrite.rs ::: zoom_item.channel.send(handle).await.expect("Couln't send"); ::: crate::verif_support::env::direct_send(&mut zoom_item.channel, handle); ::: 2
// @cut end-of-chromosome flush; other resolutions; more than 2 tracked pieces; f32 narrowing (c09_zoom_section_layout)
// @witness cover: entry nested in the first tracked piece; entry reaching past all tracked pieces; a live record that is continued
#[kani::proof]
#[kani::unwind(6)]
#[kani::stub(tokio::runtime::Handle::spawn, fake_spawn_skip)]
#[kani::stub(alloc::vec::Vec::push, push_within_capacity)]
fn c08_bigbed_zoom_step() {
    zoom_step(None);
}

// @harness c08_bigbed_zoom_step_np0
// @props C08
// @tier quick
// @kind core
// @timeout 3600
// @mem 24
// @rss 12
// @functions bigbedwrite::process_val_zoom (coverage sweep + tiling into zoom records): ONE call from an ARBITRARY valid per-level state
// @bounds INSTANCE with 0 tracked pieces; pre-state: tracked coverage = 0..=2 contiguous pieces starting at the entry's start with strictly decreasing positive depths (what the sweep leaves behind), live zoom record absent or any record satisfying the invariant (ends at or before the entry's start, shorter than the resolution, 1..=len covered bases, depth statistics 1..=3); entry [is,ie) with is <= 4, all coordinates <= 7; the next entry starts at 12 (everything is swept); resolution 3; items_per_slot 8
// @assumes representation invariant as stated; depths <= 3
// @stubs tokio Handle::spawn -> counted/discarded (asserted not to happen); the two channel hand-offs `zoom_item.channel.send(handle).await.expect(..)` -> `direct_send(..)` by source substitution (with the await points left in, the coroutine lowering merges the nested loop heads and no unwinding budget up to 24 sufficed); Vec::push -> within capacity (asserted); index_list::IndexList -> 4-slot sequence model by one source substitution of the `use` line
// @sub src/bbi/bigbedwrite.rs ::: use index_list::IndexList; ::: use crate::verif_support::ilist::IndexList; ||| src/bbi/bigbedwrite.rs ::: zoom_item.channel.send(handle).await.expect("Couln't send"); ::: crate::verif_support::env::direct_send(&mut zoom_item.channel, handle); ::: 2
// @cut end-of-chromosome flush; other resolutions; more than 2 tracked pieces; f32 narrowing (c09_zoom_section_layout)
// @witness cover: entry nested in the first tracked piece; entry reaching past all tracked pieces; a live record that is continued
#[kani::proof]
#[kani::unwind(6)]
#[kani::stub(tokio::runtime::Handle::spawn, fake_spawn_skip)]
#[kani::stub(alloc::vec::Vec::push, push_within_capacity)]
fn c08_bigbed_zoom_step_np0() {
    zoom_step(Some(0));
}

// @harness c08_bigbed_zoom_step_np1
// @props C08
// @tier thorough
// @kind core
// @timeout 3600
// @mem 24
// @rss 12
// @functions bigbedwrite::process_val_zoom (coverage sweep + tiling into zoom records): ONE call from an ARBITRARY valid per-level state
// @bounds INSTANCE with exactly 1 tracked piece; pre-state: tracked coverage = 0..=2 contiguous pieces starting at the entry's start with strictly decreasing positive depths (what the sweep leaves behind), live zoom record absent or any record satisfying the invariant (ends at or before the entry's start, shorter than the resolution, 1..=len covered bases, depth statistics 1..=3); entry [is,ie) with is <= 4, all coordinates <= 7; the next entry starts at 12 (everything is swept); resolution 3; items_per_slot 8
// @assumes representation invariant as stated; depths <= 3
// @stubs tokio Handle::spawn -> counted/discarded (asserted not to happen); the two channel hand-offs `zoom_item.channel.send(handle).await.expect(..)` -> `direct_send(..)` by source substitution (with the await points left in, the coroutine lowering merges the nested loop heads and no unwinding budget up to 24 sufficed); Vec::push -> within capacity (asserted); index_list::IndexList -> 4-slot sequence model by one source substitution of the `use` line
// @sub src/bbi/bigbedwrite.rs ::: use index_list::IndexList; ::: use crate::verif_support::ilist::IndexList; ||| src/bbi/bigbedwrite.rs ::: zoom_item.channel.send(handle).await.expect("Couln't send"); ::: crate::verif_support::env::direct_send(&mut zoom_item.channel, handle); ::: 2
// @cut end-of-chromosome flush; other resolutions; more than 2 tracked pieces; f32 narrowing (c09_zoom_section_layout)
// @witness cover: entry nested in the first tracked piece; entry reaching past all tracked pieces; a live record that is continued
#[kani::proof]
#[kani::unwind(6)]
#[kani::stub(tokio::runtime::Handle::spawn, fake_spawn_skip)]
#[kani::stub(alloc::vec::Vec::push, push_within_capacity)]
fn c08_bigbed_zoom_step_np1() {
    zoom_step(Some(1));
}

// @harness c08_bigbed_zoom_step_np2
// @props C08
// @tier thorough
// @kind core
// @timeout 3600
// @mem 24
// @rss 12
// @functions bigbedwrite::process_val_zoom (coverage sweep + tiling into zoom records): ONE call from an ARBITRARY valid per-level state
// @bounds INSTANCE with exactly 2 tracked pieces; pre-state: tracked coverage = 0..=2 contiguous pieces starting at the entry's start with strictly decreasing positive depths (what the sweep leaves behind), live zoom record absent or any record satisfying the invariant (ends at or before the entry's start, shorter than the resolution, 1..=len covered bases, depth statistics 1..=3); entry [is,ie) with is <= 4, all coordinates <= 7; the next entry starts at 12 (everything is swept); resolution 3; items_per_slot 8
// @assumes representation invariant as stated; depths <= 3
// @stubs tokio Handle::spawn -> counted/discarded (asserted not to happen); the two channel hand-offs `zoom_item.channel.send(handle).await.expect(..)` -> `direct_send(..)` by source substitution (with the await points left in, the coroutine lowering merges the nested loop heads and no unwinding budget up to 24 sufficed); Vec::push -> within capacity (asserted); index_list::IndexList -> 4-slot sequence model by one source substitution of the `use` line
// @sub src/bbi/bigbedwrite.rs ::: use index_list::IndexList; ::: use crate::verif_support::ilist::IndexList; ||| src/bbi/bigbedwrite.rs ::: zoom_item.channel.send(handle).await.expect("Couln't send"); ::: crate::verif_support::env::direct_send(&mut zoom_item.channel, handle); ::: 2
// @cut end-of-chromosome flush; other resolutions; more than 2 tracked pieces; f32 narrowing (c09_zoom_section_layout)
// @witness cover: entry nested in the first tracked piece; entry reaching past all tracked pieces; a live record that is continued
#[kani::proof]
#[kani::unwind(6)]
#[kani::stub(tokio::runtime::Handle::spawn, fake_spawn_skip)]
#[kani::stub(alloc::vec::Vec::push, push_within_capacity)]
fn c08_bigbed_zoom_step_np2() {
    zoom_step(Some(2));
}

fn zoom_step(np_fixed: Option<u8>) {
    let size: u32 = 3;
    let (is, ie): (u32, u32) = (kani::any(), kani::any());
    kani::assume(is <= ie && is <= 4 && ie <= 7);
    // tracked pieces
    // number of tracked pieces: symbolic in the thorough harness, one concrete value per quick instance (the
    // case split cuts the run from 40 min to 9-13 min per instance; still above the 15-minute budget of a quick check, so all
    // of them live in the thorough tier)
    let np: u8 = match np_fixed { Some(v) => v, None => kani::any() };
    kani::assume(np <= 2);
    let (a1, a2): (u32, u32) = (kani::any(), kani::any());
    let (d1, d2): (u8, u8) = (kani::any(), kani::any());
    let a0 = is;
    if np >= 1 { kani::assume(a0 < a1 && a1 <= 7 && d1 >= 1 && d1 <= 3); }
    if np >= 2 { kani::assume(a1 < a2 && a2 <= 7 && d2 >= 1 && d2 < d1); }
    // live record
    let has_live: bool = kani::any();
    let (ls, le): (u32, u32) = (kani::any(), kani::any());
    let (lb, lmin, lmax, lsum, lsq): (u8, u8, u8, u8, u8) = (kani::any(), kani::any(), kani::any(), kani::any(), kani::any());
    if has_live {
        kani::assume(ls < le && le - ls < size && le <= is);
        kani::assume(lb >= 1 && (lb as u32) <= le - ls && lmin >= 1 && lmin <= lmax && lmax <= 3 && lsum <= 9 && lsq <= 27);
    }
    let mut overlap: IndexList<Value> = IndexList::new();
    if np >= 1 { overlap.insert_last(Value { start: a0, end: a1, value: d1 as f32 }); }
    if np >= 2 { overlap.insert_last(Value { start: a1, end: a2, value: d2 as f32 }); }
    let live = if has_live {
        Some((ZoomRecord { chrom: 7, start: ls, end: le, summary: Summary { total_items: 0, bases_covered: lb as u64, min_val: lmin as f64, max_val: lmax as f64, sum: lsum as f64, sum_squares: lsq as f64 } }, 1u64))
    } else {
        None
    };
    let mut env = Env::new();
    let (ztx, zrx) = futures::channel::mpsc::channel::<Msg>(4);
    core::mem::forget(zrx);
    let mut zoom_items = Vec::with_capacity(1);
    zoom_items.push(ZoomItem { size, live_info: live, overlap, records: Vec::with_capacity(8), channel: ztx });
    let mut options = BBIWriteOptions::default();
    options.items_per_slot = 8;
    options.compress = false;
    let handle: &tokio::runtime::Handle = env.handle();
    let far = entry(12, 13);
    let r = poll_once(process_val_zoom(&mut zoom_items, &options, is, ie, Some(&far), handle, 7));
    let okr = match &r { Some(Ok(())) => true, _ => false };
    core::mem::forget(r);
    assert!(okr, "[total] process_val_zoom failed or suspended");
    assert!(env.spawned() == 0, "[no_flush] nothing may be flushed before the slot is full or the chromosome ends");
    let zi = &zoom_items[0];
    assert!(zi.overlap.len() == 0, "[swept] coverage left of the next entry must be fully swept into records");
    let n = zi.records.len();
    assert!(n <= 4, "[count] more records than 8 bases at resolution 3 can need");
    let (d1u, d2u) = (d1 as u64, d2 as u64);
    let (tot, _, _, _, _) = depth2_stats(is, 8, a0, a1, a2, d1u, d2u, np, is, ie);
    let mut got: u64 = 0;
    let mut prev_end: u32 = 0;
    let mut first = true;
    let mut i = 0;
    while i <= n {
        let rec: Option<ZoomRecord> = if i < n { Some(zi.records[i]) } else { zi.live_info.map(|l| l.0) };
        if let Some(rec) = rec {
            assert!(rec.start < rec.end && rec.end <= 8, "[nonempty] empty or out-of-range zoom record");
            assert!(rec.end - rec.start <= size, "[resolution] record longer than the level's resolution");
            assert!(first || rec.start >= prev_end, "[order] records overlap or are out of order");
            let cont = first && has_live;
            if cont {
                assert!(rec.start == ls, "[continue] the live record must be continued, not restarted");
            } else {
                assert!(rec.start >= is, "[gap] a record starts before the data it summarises");
            }
            let lo = if rec.start > is { rec.start } else { is };
            let (b, sm, sq, mn, mx) = depth2_stats(lo, rec.end, a0, a1, a2, d1u, d2u, np, is, ie);
            let (cb, cs, cq) = if cont { (lb as u64, lsum as u64, lsq as u64) } else { (0, 0, 0) };
            assert!(rec.summary.bases_covered == cb + b, "[bases] a record's covered-base count differs from the covered bases in its span");
            assert!(cont || b > 0, "[useless] a new record without any covered base");
            assert!(rec.summary.sum == (cs + sm) as f64, "[sum] a record's sum differs from the depth inside its span");
            assert!(rec.summary.sum_squares == (cq + sq) as f64, "[sumsq] sum of squares");
            let wmin = if cont && (b == 0 || (lmin as u64) < mn) { lmin as u64 } else { mn };
            let wmax = if cont && (b == 0 || (lmax as u64) > mx) { lmax as u64 } else { mx };
            assert!(rec.summary.min_val == wmin as f64 && rec.summary.max_val == wmax as f64, "[minmax] min/max depth differ from the depth inside the record's span");
            got += b;
            prev_end = rec.end;
            first = false;
        }
        i += 1;
    }
    assert!(got == tot, "[exactly_once] every covered base must lie in exactly one record");
    let c1 = ((np >= 1) & (ie < a1) & (is < ie)) | ((np == 0) & (is < ie));
    kani::cover!(c1, "entry nested in the first tracked piece (no tracked piece: any non-empty entry)");
    let c2 = ((np >= 1) & (ie > a1) & ((np < 2) | (ie > a2))) | ((np == 0) & (ie > is + 3));
    kani::cover!(c2, "entry reaching past all tracked pieces (no tracked piece: an entry longer than the resolution)");
    let c3 = has_live & (is == le) & (is < ie);
    kani::cover!(c3, "live record continued");
    core::mem::forget(zoom_items);
    core::mem::forget(far);
}
