use super::*;
use crate::verif_support::*;
use crate::verif_support::env::*;

fn entry(start: u32, end: u32) -> BedEntry {
    BedEntry { start, end, rest: String::from("x") }
}

// @harness c04_bigbed_section_span
// @props C04 C09
// @tier quick
// @kind core
// @timeout 600
// @mem 12
// @functions bigbedwrite::encode_section (uncompressed branch)
// @bounds 3 entries per block (concrete count), coordinates full u32 width, empty rest fields
// @assumes entries start-sorted with start<=end (what the writer accepts)
// @cut zlib branch (libdeflate is C); rest-field bytes (see c02 harnesses)
// @witness cover: a block whose largest end is not the last entry's end
#[kani::proof]
#[kani::unwind(5)]
fn c04_bigbed_section_span() {
    // scalars, not arrays: symbolic arrays indexed in loops cost 30x in the SAT encoding (measured)
    let (s0, s1, s2): (u32, u32, u32) = (kani::any(), kani::any(), kani::any());
    let (e0, e1, e2): (u32, u32, u32) = (kani::any(), kani::any(), kani::any());
    kani::assume(s0 <= s1 && s1 <= s2);
    kani::assume(s0 <= e0 && s1 <= e1 && s2 <= e2);
    let chrom: u32 = kani::any();
    let items = vec![entry(s0, e0), entry(s1, e1), entry(s2, e2)];
    let r = poll_once(encode_section(false, items, chrom));
    let (ok, sd_chrom, sd_start, sd_end, ubs) = match &r {
        Some(Ok((sd, ubs))) => (true, sd.chrom, sd.start, sd.end, *ubs),
        _ => (false, 0, 0, 0, 0),
    };
    core::mem::forget(r);
    assert!(ok, "[total] encode_section did not return Ok");
    assert!(sd_chrom == chrom, "[chrom] section chromosome");
    assert!(ubs == 0, "[ubs] uncompressed size must be 0 when not compressing");
    assert!(sd_start <= s0 && sd_start <= s1 && sd_start <= s2, "[span_start] block span starts after one of its entries");
    assert!(sd_end >= e0 && sd_end >= e1 && sd_end >= e2, "[span_end] block span ends before one of its entries ends");
    kani::cover!(e0 > e2, "long entry followed by short ones");
}

// @harness c13_bigbed_accept_predicate
// @props C13
// @tier quick
// @kind core
// @timeout 900
// @mem 16
// @functions bigbedwrite::process_val (acceptance checks and the accepted path up to section hand-off)
// @bounds one call from the empty per-chromosome state; all coordinates and the chromosome length full u32 width; items_per_slot = 2
// @stubs tokio Handle::spawn -> run now; mpsc Sender::poll_ready/start_send -> always ready FIFO log; alloc::fmt::format -> empty string
// @cut refusal as seen through write()/JoinHandles; unknown chromosome / chromosome order (closures inside write_vals)
// @witness cover: accepted and each refusal class reachable
#[kani::proof]
#[kani::unwind(4)]
#[kani::stub(tokio::runtime::Handle::spawn, fake_spawn)]
#[kani::stub(futures::channel::mpsc::Sender::poll_ready, fake_poll_ready)]
#[kani::stub(futures::channel::mpsc::Sender::start_send, fake_start_send)]
#[kani::stub(alloc::fmt::format, fake_format)]
fn c13_bigbed_accept_predicate() {
    let (cs, ce, ns, ne, len): (u32, u32, u32, u32, u32) = (kani::any(), kani::any(), kani::any(), kani::any(), kani::any());
    let has_next: bool = kani::any();
    let cur = entry(cs, ce);
    let next = entry(ns, ne);
    let mut env = Env::new();
    let chrom = String::new();
    let mut summary: Option<Summary> = None;
    let mut items: Vec<BedEntry> = Vec::with_capacity(2);
    let mut overlap: IndexList<Value> = IndexList::new();
    let mut options = BBIWriteOptions::default();
    options.items_per_slot = 2;
    options.compress = false;
    let handle: &tokio::runtime::Handle = env.handle();
    let r = poll_once(process_val(
        cur,
        if has_next { Some(&next) } else { None },
        len,
        &chrom,
        &mut summary,
        &mut items,
        &mut overlap,
        &options,
        handle,
        &mut env.tx,
        7,
    ));
    let (done, is_err) = match &r {
        Some(Ok(())) => (true, false),
        Some(Err(_)) => (true, true),
        None => (false, false),
    };
    core::mem::forget(r);
    assert!(done, "[total] process_val suspended");
    // the writer's documented refusal classes for one bigBed entry
    let bad = cs > ce || cs >= len || (has_next && cs > ns);
    assert!(is_err == bad, "[accept_iff] Err must be returned exactly for unrepresentable input");
    if is_err {
        assert!(items.is_empty() && env.sent() == 0, "[refuse_clean] a refused entry must leave no trace");
    }
    kani::cover!(!is_err && has_next, "accepted with a next value");
    kani::cover!(!is_err && !has_next, "accepted last value");
    kani::cover!(cs > ce, "start beyond end");
    kani::cover!(cs <= ce && cs >= len, "start beyond chromosome");
    kani::cover!(cs <= ce && cs < len && has_next && cs > ns, "out of order");
    core::mem::forget(items);
    core::mem::forget(overlap);
    core::mem::forget(next);
    core::mem::forget(chrom);
}


fn g32(d: &[u8], o: usize) -> u32 { u32::from_ne_bytes([d[o], d[o + 1], d[o + 2], d[o + 3]]) }

// @harness c02_bigbed_section_layout
// @props C02 C09
// @tier quick
// @kind core
// @timeout 900
// @mem 12
// @functions bigbedwrite::encode_section (uncompressed branch)
// @bounds 2 entries per block; coordinates full width; rest fields of length 2 and 0 with symbolic non-NUL bytes
// @assumes entries start-sorted with start <= end; rest bytes non-NUL ASCII
// @cut zlib branch; longer rest fields (byte copy is uniform)
// @witness cover: zero-length entry at position 0; nested second entry
#[kani::proof]
#[kani::unwind(5)]
fn c02_bigbed_section_layout() {
    let (s0, e0, s1, e1): (u32, u32, u32, u32) = (kani::any(), kani::any(), kani::any(), kani::any());
    kani::assume(s0 <= s1 && s0 <= e0 && s1 <= e1);
    let (r0, r1): (u8, u8) = (kani::any(), kani::any());
    kani::assume(r0 != 0 && r0 < 0x80 && r1 != 0 && r1 < 0x80);
    let chrom: u32 = kani::any();
    let mut rest0 = String::with_capacity(2);
    rest0.push(r0 as char);
    rest0.push(r1 as char);
    let items = vec![
        BedEntry { start: s0, end: e0, rest: rest0 },
        BedEntry { start: s1, end: e1, rest: String::new() },
    ];
    let r = poll_once(encode_section(false, items, chrom));
    let ok = match &r {
        Some(Ok((sd, ubs))) => {
            let d = &sd.data;
            *ubs == 0 && sd.chrom == chrom && sd.start == s0
                && d.len() == 12 + 3 + 12 + 1
                && g32(d, 0) == chrom && g32(d, 4) == s0 && g32(d, 8) == e0
                && d[12] == r0 && d[13] == r1 && d[14] == 0
                && g32(d, 15) == chrom && g32(d, 19) == s1 && g32(d, 23) == e1
                && d[27] == 0
        }
        _ => false,
    };
    core::mem::forget(r);
    assert!(ok, "[section_bytes] bigBed block bytes differ from the (chrom,start,end,rest,NUL) layout");
    let c1 = (s0 == 0) & (e0 == 0);
    kani::cover!(c1, "zero-length entry at 0");
    let c2 = e1 < e0;
    kani::cover!(c2, "nested entry");
}
