use super::*;
use crate::bbiread::{BBIFileInfo, BBIHeader, Block};
use byteordered::Endianness;
use smallvec::SmallVec;

pub struct FakeBedRead {
    pub block: Vec<u8>,
}
impl BBIFileRead for FakeBedRead {
    type Reader = std::io::Cursor<Vec<u8>>;
    fn get_block_data(&mut self, _info: &BBIFileInfo, _block: &Block) -> io::Result<Vec<u8>> {
        // byte loop, not clone(): see verif_support::bbuf
        let mut v = Vec::with_capacity(self.block.len());
        let mut i = 0;
        while i < self.block.len() {
            v.push(self.block[i]);
            i += 1;
        }
        Ok(v)
    }
    fn blocks_for_cir_tree_node(&mut self, _e: Endianness, _o: u64, _c: u32, _s: u32, _en: u32) -> io::Result<(SmallVec<[u64; 4]>, SmallVec<[Block; 4]>)> {
        Err(io::Error::from(io::ErrorKind::Other))
    }
    fn raw_reader(&mut self) -> &mut Self::Reader {
        loop {}
    }
}
fn bed_info(big: bool) -> BBIFileInfo {
    BBIFileInfo {
        filetype: BBIFile::BigBed,
        header: BBIHeader {
            endianness: if big { Endianness::Big } else { Endianness::Little },
            version: 4, field_count: 3, defined_field_count: 3, zoom_levels: 0,
            chromosome_tree_offset: 0, full_data_offset: 0, full_index_offset: 0, full_index_tree_offset: None,
            auto_sql_offset: 0, total_summary_offset: 0, uncompress_buf_size: 0,
        },
        zoom_headers: Vec::new(),
        chrom_info: Vec::new(),
    }
}
fn b32(v: &mut Vec<u8>, big: bool, x: u32) {
    let b = if big { x.to_be_bytes() } else { x.to_le_bytes() };
    v.push(b[0]); v.push(b[1]); v.push(b[2]); v.push(b[3]);
}

fn block_entries(big: bool, sym_starts: bool) {
    // One coordinate of each entry is concrete and non-zero: the reader's end-of-block convention
    // `start == 0 && end == 0 -> Err` sits inside a closure, and with both coordinates symbolic the Err path and
    // the Ok path are merged when the closure returns - the buffer position becomes an if-then-else and every
    // later loop over the remaining bytes is unwound to the bound (measured: symex > 40 min / 20 GB). With one
    // concrete non-zero coordinate the test folds to false. The two variants together cover symbolic starts
    // and symbolic ends; (0,0) entries are excluded in both (D10, seen by reading).
    let (s0, e0, s1, e1): (u32, u32, u32, u32) = if sym_starts {
        (kani::any(), 40, kani::any(), 50)
    } else {
        (3, kani::any(), 6, kani::any())
    };
    kani::assume(s0 <= s1 && s0 <= e0 && s1 <= e1);
    // the rest field is CONCRETE ('x'): with symbolic rest bytes the position of the terminating NUL is
    // symbolic and String::from_utf8 runs its validation loop over a symbolic length (did not finish in 40 min)
    let r0: u8 = b'x';
    let (qs, qe): (u32, u32) = (kani::any(), kani::any());
    kani::assume(qs <= qe);
    let mut b: Vec<u8> = Vec::with_capacity(32);
    b32(&mut b, big, 7); b32(&mut b, big, s0); b32(&mut b, big, e0); b.push(r0); b.push(0);
    b32(&mut b, big, 7); b32(&mut b, big, s1); b32(&mut b, big, e1); b.push(0);
    let blen = b.len() as u64;
    let mut bb = BigBedRead { info: bed_info(big), read: FakeBedRead { block: b } };
    let mut known: u64 = 0;
    let r = get_block_entries(&mut bb, Block { offset: 0, size: blen }, &mut known, 7, qs, qe);
    let (ok, n, a, c) = match r {
        Ok(mut it) => {
            let a = it.next();
            let c = it.next();
            let d = it.next();
            let n = (a.is_some() as u8) + (c.is_some() as u8) + (d.is_some() as u8);
            core::mem::forget(it);
            (true, n, a, c)
        }
        Err(e) => { core::mem::forget(e); (false, 0, None, None) }
    };
    assert!(ok, "[ok] a well-formed block was rejected");
    // the bigBed reader's inclusive filter (entries touching a boundary may be included)
    let w0 = e0 >= qs && s0 <= qe;
    let w1 = e1 >= qs && s1 <= qe;
    // ... but never an entry wholly outside [qs, qe], and never fewer than the truly overlapping ones
    assert!(n == (w0 as u8) + (w1 as u8), "[count] returned entries differ from the overlap rule");
    let first = if w0 { Some((s0, e0, 1usize)) } else if w1 { Some((s1, e1, 0usize)) } else { None };
    if let Some((fs, fe, rl)) = first {
        let okf = match &a { Some(x) => x.start == fs && x.end == fe && x.rest.len() == rl && (rl == 0 || x.rest.as_bytes()[0] == r0), None => false };
        assert!(okf, "[first] first returned entry differs from the stored one (coordinates or rest field)");
    }
    if w0 && w1 {
        let oks = match &c { Some(x) => x.start == s1 && x.end == e1 && x.rest.is_empty(), None => false };
        assert!(oks, "[second] second returned entry differs / out of stored order");
    }
    let c1 = w0 & w1;
    kani::cover!(c1, "both entries returned");
    let c2 = !w0 & w1;
    kani::cover!(c2, "first entry filtered out");
    let c3 = (e1 < e0) | sym_starts;
    kani::cover!(c3, "nested entry");
    core::mem::forget(a);
    core::mem::forget(c);
    core::mem::forget(bb);
}

// @harness c02_block_entries
// @props C02 C04 C10
// @tier quick
// @kind core
// @timeout 2400
// @mem 24
// @sub src/bbi/bigbedread.rs ::: use bytes::{Buf, BytesMut}; ::: use crate::verif_support::bbuf::BytesMut;
// @functions bigbedread::get_block_entries, through BigBedRead<FakeBedRead>; bytes::BytesMut replaced by the model verif_support::bbuf (agreement: c02_bytes_model_agrees)
// @bounds one little-endian block with 2 entries (independent encoder; starts 3 and 6, ends symbolic full width (nested allowed); rest fields `x` and empty (concrete)); arbitrary query
// @stubs FakeBedRead implements the public BBIFileRead trait (uncompressed block bytes); alloc::fmt::format -> empty; String::from_utf8 -> trusting conversion (rest fields are ASCII by construction; invalid UTF-8 in a file is a malformed-file question, not part of this harness); bytes::BytesMut -> model (see functions)
// @assumes entries start-sorted with start <= end; one coordinate per entry concrete and non-zero (see the comment in block_entries: the (0,0) end-of-block convention, D10)
// @cut zlib; more than 2 entries; multi-byte UTF-8 in the rest field
// @witness cover: both entries returned; first filtered out; nested entry
#[kani::proof]
#[kani::unwind(30)]
#[kani::stub(alloc::fmt::format, crate::verif_support::fake_format)]
#[kani::stub(std::string::String::from_utf8, crate::verif_support::from_utf8_trusting)]
fn c02_block_entries() {
    block_entries(false, false);
}

// @harness c10_block_entries_bigendian
// @props C10 C04
// @tier quick
// @kind stretch
// @timeout 2400
// @mem 24
// @sub src/bbi/bigbedread.rs ::: use bytes::{Buf, BytesMut}; ::: use crate::verif_support::bbuf::BytesMut;
// @functions as c02_block_entries, big-endian file
// @bounds as c02_block_entries, but with symbolic starts and concrete ends 40 and 50
// @stubs as c02_block_entries
// @assumes as c02_block_entries
#[kani::proof]
#[kani::unwind(30)]
#[kani::stub(alloc::fmt::format, crate::verif_support::fake_format)]
#[kani::stub(std::string::String::from_utf8, crate::verif_support::from_utf8_trusting)]
fn c10_block_entries_bigendian() {
    block_entries(true, true);
}

// @harness probe_block_entries_concrete_query
// @props X
// @tier off
// @kind stretch
// @timeout 900
// @mem 16
// @sub src/bbi/bigbedread.rs ::: use bytes::{Buf, BytesMut}; ::: use crate::verif_support::bbuf::BytesMut;
// @functions probe only
// @bounds probe
#[kani::proof]
#[kani::unwind(30)]
#[kani::stub(alloc::fmt::format, crate::verif_support::fake_format)]
#[kani::stub(std::string::String::from_utf8, crate::verif_support::from_utf8_trusting)]
fn probe_block_entries_concrete_query() {
    let (s0, e0, s1, e1): (u32, u32, u32, u32) = (kani::any(), kani::any(), kani::any(), kani::any());
    kani::assume(s0 <= s1 && s0 <= e0 && s1 <= e1);
    kani::assume(e0 > 0 && e1 > 0);
    let mut b: Vec<u8> = Vec::with_capacity(32);
    b32(&mut b, false, 7); b32(&mut b, false, s0); b32(&mut b, false, e0); b.push(b'x'); b.push(0);
    b32(&mut b, false, 7); b32(&mut b, false, s1); b32(&mut b, false, e1); b.push(0);
    let blen = b.len() as u64;
    let mut bb = BigBedRead { info: bed_info(false), read: FakeBedRead { block: b } };
    let mut known: u64 = 0;
    let r = get_block_entries(&mut bb, Block { offset: 0, size: blen }, &mut known, 7, 0, u32::MAX);
    let ok = r.is_ok();
    core::mem::forget(r);
    assert!(ok);
    core::mem::forget(bb);
}
