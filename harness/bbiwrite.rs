use super::*;
use crate::verif_support::*;
use std::io::{Seek, SeekFrom, Write};

// ------------------------------------------------------------------------------------------------
// harness-side destination: a fixed byte array with a cursor, optional fault injection, op counting
// ------------------------------------------------------------------------------------------------
pub const SINK_CAP: usize = 448;
pub struct Stats {
    pub data: [u8; SINK_CAP],
    pub len: usize,
    pub pos: usize,
    pub ops: usize,      // operations that reached the destination
    pub fail_at: usize,  // the fail_at-th operation (1-based) fails; 0 = never
    pub failed: bool,    // an injected failure was delivered to the caller
}
impl Stats {
    pub fn new(fail_at: usize) -> Stats {
        Stats { data: [0u8; SINK_CAP], len: 0, pos: 0, ops: 0, fail_at, failed: false }
    }
}
pub struct Sink(pub *mut Stats);
unsafe impl Send for Sink {}
impl Sink {
    fn st(&mut self) -> &mut Stats { unsafe { &mut *self.0 } }
    fn op(&mut self) -> io::Result<()> {
        let s = self.st();
        s.ops += 1;
        if s.fail_at != 0 && s.ops == s.fail_at {
            s.failed = true;
            return Err(io::Error::from(io::ErrorKind::Other));
        }
        Ok(())
    }
}
impl Write for Sink {
    fn write(&mut self, buf: &[u8]) -> io::Result<usize> {
        self.op()?;
        let s = self.st();
        let n = buf.len();
        if s.pos + n > SINK_CAP {
            kani::assert(false, "[sink] capacity exceeded");
            return Ok(0);
        }
        s.data[s.pos..s.pos + n].copy_from_slice(buf);
        s.pos += n;
        if s.pos > s.len { s.len = s.pos; }
        Ok(n)
    }
    fn flush(&mut self) -> io::Result<()> {
        self.op()
    }
}
impl Seek for Sink {
    fn seek(&mut self, p: SeekFrom) -> io::Result<u64> {
        self.op()?;
        let s = self.st();
        let np: i64 = match p {
            SeekFrom::Start(x) => x as i64,
            SeekFrom::Current(d) => s.pos as i64 + d,
            SeekFrom::End(d) => s.len as i64 + d,
        };
        if np < 0 || np as usize > SINK_CAP {
            kani::assert(false, "[sink] seek out of modelled range");
            return Err(io::Error::from(io::ErrorKind::InvalidInput));
        }
        s.pos = np as usize;
        Ok(np as u64)
    }
}


/// destination that only counts operations and bytes (no data copy: after an injected failure the
/// BufWriter's pending length is symbolic and copying it would be a variable-length memcpy)
pub struct CountSink(pub *mut Stats);
unsafe impl Send for CountSink {}
impl CountSink {
    fn st(&mut self) -> &mut Stats { unsafe { &mut *self.0 } }
    fn op(&mut self) -> io::Result<()> {
        let s = self.st();
        s.ops += 1;
        if s.fail_at != 0 && s.ops == s.fail_at {
            s.failed = true;
            return Err(io::Error::from(io::ErrorKind::Other));
        }
        Ok(())
    }
}
impl Write for CountSink {
    fn write(&mut self, buf: &[u8]) -> io::Result<usize> {
        self.op()?;
        let s = self.st();
        s.pos += buf.len();
        if s.pos > s.len { s.len = s.pos; }
        Ok(buf.len())
    }
    fn flush(&mut self) -> io::Result<()> { self.op() }
}
impl Seek for CountSink {
    fn seek(&mut self, p: SeekFrom) -> io::Result<u64> {
        self.op()?;
        let s = self.st();
        let np: i64 = match p {
            SeekFrom::Start(x) => x as i64,
            SeekFrom::Current(d) => s.pos as i64 + d,
            SeekFrom::End(d) => s.len as i64 + d,
        };
        s.pos = np as usize;
        Ok(np as u64)
    }
}

fn rd16(d: &[u8; SINK_CAP], o: usize) -> u16 { u16::from_ne_bytes([d[o], d[o + 1]]) }
fn rd32(d: &[u8; SINK_CAP], o: usize) -> u32 { u32::from_ne_bytes([d[o], d[o + 1], d[o + 2], d[o + 3]]) }
fn rd64(d: &[u8; SINK_CAP], o: usize) -> u64 {
    u64::from_ne_bytes([d[o], d[o + 1], d[o + 2], d[o + 3], d[o + 4], d[o + 5], d[o + 6], d[o + 7]])
}

// @harness c09_header_layout
// @props C09 C01 C06
// @tier quick
// @kind core
// @timeout 1200
// @mem 16
// @functions bbiwrite::write_blank_headers, bbiwrite::write_info (through std BufWriter, capacity 64)
// @bounds every header field symbolic at full width; 2 zoom directory entries; summary/data-count offsets concrete as BigWigWrite::write_pre produces them (304 / 344)
// @cut native byte order only (the writer always writes native order); zoom count > 2; other placeholder offsets (bigBed: shifted by the autoSql length)
// @witness cover: non-zero magic and data count
#[kani::proof]
#[kani::unwind(4)]
fn c09_header_layout() {
    header_layout(304, 344);
}

fn header_layout(tso: u64, fdo: u64) {
    let mut st = Stats::new(0);
    let mut file = BufWriter::with_capacity(64, Sink(&mut st as *mut Stats));
    let magic: u32 = kani::any();
    let (cis, ixs, aso): (u64, u64, u64) = (kani::any(), kani::any(), kani::any());
    let (fc, dfc): (u16, u16) = (kani::any(), kani::any());
    let ubs: u32 = kani::any();
    let (z0r, z1r): (u32, u32) = (kani::any(), kani::any());
    let (z0d, z0i, z1d, z1i): (u64, u64, u64, u64) = (kani::any(), kani::any(), kani::any(), kani::any());
    let dc: u64 = kani::any();
    let bases: u64 = kani::any();
    let (mn, mx, sm, sq): (u64, u64, u64, u64) = (kani::any(), kani::any(), kani::any(), kani::any());
    let r0 = write_blank_headers(&mut file);
    // placeholders up to 392 so that End(0) is past everything
    let pad = file.write_all(&[0u8; 88]);
    let summary = Summary { total_items: 0, bases_covered: bases, min_val: f64::from_bits(mn), max_val: f64::from_bits(mx), sum: f64::from_bits(sm), sum_squares: f64::from_bits(sq) };
    let mut zooms = Vec::with_capacity(2);
    zooms.push(ZoomHeader { reduction_level: z0r, data_offset: z0d, index_offset: z0i, index_tree_offset: None });
    zooms.push(ZoomHeader { reduction_level: z1r, data_offset: z1d, index_offset: z1i, index_tree_offset: None });
    let r = write_info(&mut file, magic, 2, cis, fdo, ixs, fc, dfc, aso, tso, ubs as usize, zooms, summary, dc);
    let ok = r0.is_ok() && pad.is_ok() && r.is_ok();
    core::mem::forget(r0); core::mem::forget(pad); core::mem::forget(r);
    let fl = file.flush();
    let ok2 = fl.is_ok();
    core::mem::forget(fl);
    core::mem::forget(file);
    assert!(ok && ok2, "[ok] header writing failed on a healthy destination");
    let d = &st.data;
    // ---- independent decoder: offsets from the format paper --------------------------------
    assert!(rd32(d, 0) == magic, "[hdr_magic] magic at 0");
    assert!(rd16(d, 4) == 4, "[hdr_version] version 4 at 4");
    assert!(rd16(d, 6) == 2, "[hdr_zoomcount] zoom level count at 6");
    assert!(rd64(d, 8) == cis, "[hdr_chromtree] chromosome tree offset at 8");
    assert!(rd64(d, 16) == fdo, "[hdr_dataoffset] full data offset at 16");
    assert!(rd64(d, 24) == ixs, "[hdr_indexoffset] full index offset at 24");
    assert!(rd16(d, 32) == fc, "[hdr_fieldcount] field count at 32");
    assert!(rd16(d, 34) == dfc, "[hdr_definedfieldcount] defined field count at 34");
    assert!(rd64(d, 36) == aso, "[hdr_autosql] autoSql offset at 36");
    assert!(rd64(d, 44) == tso, "[hdr_summaryoffset] total summary offset at 44");
    assert!(rd32(d, 52) == ubs, "[hdr_uncompressbuf] uncompress buffer size at 52");
    assert!(rd64(d, 56) == 0, "[hdr_reserved] reserved at 56");
    // zoom directory: 24 bytes each from 64
    assert!(rd32(d, 64) == z0r && rd32(d, 68) == 0 && rd64(d, 72) == z0d && rd64(d, 80) == z0i, "[zoomdir0] first zoom directory entry");
    assert!(rd32(d, 88) == z1r && rd32(d, 92) == 0 && rd64(d, 96) == z1d && rd64(d, 104) == z1i, "[zoomdir1] second zoom directory entry");
    // unused directory slots stay zero
    assert!(rd64(d, 112) == 0 && rd64(d, 296) == 0, "[zoomdir_rest] unused zoom slots not zero");
    // total summary block and data count at their advertised offsets
    let t = tso as usize;
    assert!(rd64(d, t) == bases && rd64(d, t + 8) == mn && rd64(d, t + 16) == mx && rd64(d, t + 24) == sm && rd64(d, t + 32) == sq, "[summary_block] total summary not at its advertised offset");
    assert!(rd64(d, fdo as usize) == dc, "[data_count] data count not at the full data offset");
    // trailing magic is the last four bytes of the file
    assert!(st.len == 396 && rd32(d, 392) == magic, "[trailer] trailing magic must be the last 4 bytes");
    let c1 = (magic != 0) & (dc != 0);
    kani::cover!(c1, "non-zero magic and data count");
}

// @harness c14_write_info_fault
// @props C14
// @tier quick
// @kind core
// @timeout 1200
// @mem 16
// @functions bbiwrite::write_info over BufWriter<FaultySink>, then the BufWriter is dropped as BigWigWrite::write / BigBedWrite::write do
// @bounds the k-th operation (write, seek or flush) that reaches the destination fails, k symbolic in 1..=13 (write_info issues up to 11 destination operations in a debug build through a BufWriter that, like the production 8 KiB one, holds each run of writes until the next seek, plus the final flush); 1 zoom entry; offsets as BigWigWrite::write_pre produces them
// @assumes a failed operation returns io::ErrorKind::Other and has no effect; BufWriter capacity 256 (>= every run of writes, as in production)
// @cut failures inside the async data pipeline (write_data / await_real_file); bigBed differs only by constants
// @witness cover: a failure was delivered; failure on the very last operation; k beyond the last operation
#[kani::proof]
#[kani::unwind(3)]
fn c14_write_info_fault() {
    let k: usize = kani::any();
    kani::assume(k >= 1 && k <= 13);
    let mut st = Stats::new(0);
    // a healthy prefix (blank headers + placeholders) is already on the destination
    st.len = 392;
    st.pos = 392;
    st.fail_at = k;
    let mut file = BufWriter::with_capacity(256, CountSink(&mut st as *mut Stats));
    let summary = Summary { total_items: 0, bases_covered: 1, min_val: 0.0, max_val: 0.0, sum: 0.0, sum_squares: 0.0 };
    let mut zooms = Vec::with_capacity(1);
    zooms.push(ZoomHeader { reduction_level: 10, data_offset: 1, index_offset: 2, index_tree_offset: None });
    let r = write_info(&mut file, 0x888F_FC26, 1, 400, 344, 420, 0, 0, 0, 304, 0, zooms, summary, 1);
    let reported_ok = r.is_ok();
    core::mem::forget(r);
    let ops_before_drop = st.ops;
    // what BigWigWrite::write does next: `Ok(())`, dropping the BufWriter
    drop(file);
    // the k-th operation was issued and failed  ==>  success must not have been reported
    if st.failed {
        assert!(!reported_ok, "[swallowed] a destination failure was swallowed: write_info reported Ok");
    }
    if reported_ok {
        assert!(st.ops == ops_before_drop, "[unflushed] write_info reported Ok while bytes were still only in the buffer");
        assert!(st.len == 396, "[complete] Ok reported but the trailing magic is not on the destination");
    }
    let c1 = st.failed;
    kani::cover!(c1, "a failure was delivered");
    let c2 = st.ops < k;
    kani::cover!(c2, "k beyond the last operation");
    let c3 = st.failed & (st.ops == k) & (k >= 7);
    kani::cover!(c3, "failure on a late operation");
}

fn sec(chrom: u32, start: u32, end: u32, offset: u64) -> Section {
    Section { chrom, start, end, offset, size: 1 }
}

// @harness c04_rtree_node_span
// @props C04 C05 C09
// @tier quick
// @kind core
// @timeout 1500
// @mem 24
// @functions bbiwrite::get_rtreeindex (3 sections, fan-out 2: two leaf nodes under one root)
// @bounds 3 sections on one chromosome, start-sorted, spans full u32 width, block_size 2
// @assumes sections as the writers emit them: same chromosome, starts non-decreasing, start <= end
// @cut multi-chromosome node spans (see c05 harnesses); deeper trees
// @witness cover: the first section of a node ends after the node's last section
#[kani::proof]
#[kani::unwind(5)]
fn c04_rtree_node_span() {
    let (s0, s1, s2): (u32, u32, u32) = (kani::any(), kani::any(), kani::any());
    let (e0, e1, e2): (u32, u32, u32) = (kani::any(), kani::any(), kani::any());
    kani::assume(s0 <= s1 && s1 <= s2 && s0 <= e0 && s1 <= e1 && s2 <= e2);
    let mut options = BBIWriteOptions::default();
    options.block_size = 2;
    let secs = [sec(3, s0, e0, 0), sec(3, s1, e1, 1), sec(3, s2, e2, 2)];
    let (nodes, levels, total) = get_rtreeindex(secs.into_iter(), &options);
    assert!(levels == 1 && total == 3, "[shape] 3 sections with fan-out 2 must give one level above the leaves");
    let ok = match &nodes {
        RTreeChildren::Nodes(ch) => {
            ch.len() == 2
                && ch[0].start_chrom_idx == 3 && ch[0].end_chrom_idx == 3
                && ch[0].start_base <= s0 && ch[0].start_base <= s1
                && ch[1].start_base <= s2
                && ch[1].end_base >= e2
        }
        _ => false,
    };
    assert!(ok, "[node_basic] node structure / start bounds");
    let end_ok = match &nodes {
        RTreeChildren::Nodes(ch) => ch[0].end_base >= e0 && ch[0].end_base >= e1,
        _ => false,
    };
    assert!(end_ok, "[node_span_end] an index node's span ends before one of the blocks beneath it");
    let c1 = e0 > e1;
    kani::cover!(c1, "first block of a node ends after the last");
    core::mem::forget(nodes);
}

fn key(c: u32, b: u32) -> u64 { ((c as u64) << 32) | (b as u64) }

/// writer -> bytes -> reader: build the index for `n` sections with fan-out `b`, write it, search it,
/// and compare with a linear scan using the inclusive 64-bit-key overlap spec
fn rtree_search_vs_scan(n: usize, b: u32, two_chroms: bool) {
    use crate::bbiread::{read_cir_tree_header, search_cir_tree_inner};
    let (s0, s1, s2, s3, s4): (u32, u32, u32, u32, u32) = (kani::any(), kani::any(), kani::any(), kani::any(), kani::any());
    let (e0, e1, e2, e3, e4): (u32, u32, u32, u32, u32) = (kani::any(), kani::any(), kani::any(), kani::any(), kani::any());
    // sections as the writers emit them: sorted by (chrom, start); start <= end
    let split: usize = if two_chroms { kani::any() } else { n };
    kani::assume(split <= n);
    let ch = |i: usize| if i < split { 0u32 } else { 1u32 };
    kani::assume(s0 <= e0 && s1 <= e1 && s2 <= e2 && s3 <= e3 && s4 <= e4);
    let ss = [s0, s1, s2, s3, s4];
    let es = [e0, e1, e2, e3, e4];
    let mut i = 1;
    while i < n {
        kani::assume(ch(i - 1) != ch(i) || ss[i - 1] <= ss[i]);
        i += 1;
    }
    let mut secs: Vec<Section> = Vec::with_capacity(n);
    let mut i = 0;
    while i < n {
        secs.push(Section { chrom: ch(i), start: ss[i], end: es[i], offset: 1000 + i as u64, size: 1 });
        i += 1;
    }
    let mut options = BBIWriteOptions::default();
    options.block_size = b;
    let (nodes, levels, total) = get_rtreeindex(secs.into_iter(), &options);
    let mut cur = std::io::Cursor::new(Vec::with_capacity(256));
    let w = write_rtreeindex(&mut cur, nodes, levels, total, &options);
    let wok = w.is_ok();
    core::mem::forget(w);
    assert!(wok, "[write] write_rtreeindex failed on an in-memory destination");
    let (q, qs, qe): (u32, u32, u32) = (kani::any(), kani::any(), kani::any());
    kani::assume(q <= 1 && qs <= qe);
    let r = search_cir_tree_inner(byteordered::Endianness::native(), &mut cur, 48, q, qs, qe);
    let (rok, got) = match r {
        Ok(v) => (true, v),
        Err(e) => { core::mem::forget(e); (false, Vec::new()) }
    };
    assert!(rok, "[search] searching the freshly written index failed");
    // linear scan, file order
    let mut k = 0;
    let mut i = 0;
    while i < n {
        let hit = key(q, qs) <= key(ch(i), es[i]) && key(q, qe) >= key(ch(i), ss[i]);
        if hit {
            assert!(k < got.len(), "[missed] the index search misses a block the linear scan finds");
            assert!(got[k].offset == 1000 + i as u64 && got[k].size == 1, "[order] index search returns a different block / order than the linear scan");
            k += 1;
        }
        i += 1;
    }
    assert!(got.len() == k, "[extra] the index search returns a block the linear scan does not");
    let c1 = k == n;
    kani::cover!(c1, "query hits every block");
    let c2 = (k == 0) & (n > 0);
    kani::cover!(c2, "query hits nothing");
    core::mem::forget(got);
    core::mem::forget(cur);
}

// @harness c05_search_vs_scan_n3_b2
// @props C05 C04
// @tier off
// @kind core
// @timeout 1800
// @mem 24
// @functions bbiwrite::{get_rtreeindex, write_rtreeindex, calculate_offsets, write_tree} -> bytes -> bbiread::{search_cir_tree_inner, CirTreeBlockSearchIter::next, read_node, cir_tree_leaf_items, cir_tree_non_leaf_items, nodes_overlapping, overlaps}
// @bounds 3 blocks, fan-out 2 (2-level tree, partly filled last leaf); block spans full u32 width on one chromosome; arbitrary query (chromosome 0 or 1)
// @stubs alloc::fmt::format -> empty; Vec::push -> push within capacity (asserted)
// @assumes blocks sorted by start with start <= end (as the writers emit them); native byte order
// @cut deeper / wider trees (thorough tier); zoom-level indexes use the same functions
// @witness cover: query hits every block; query hits nothing
#[kani::proof]
#[kani::unwind(6)]
#[kani::stub(alloc::fmt::format, fake_format)]
#[kani::stub(alloc::vec::Vec::push, push_within_capacity)]
fn c05_search_vs_scan_n3_b2() {
    rtree_search_vs_scan(3, 2, false);
}

fn v32(d: &[u8], o: usize) -> u32 { u32::from_ne_bytes([d[o], d[o + 1], d[o + 2], d[o + 3]]) }

// @harness c09_zoom_section_layout
// @props C09 C07 C08
// @tier quick
// @kind core
// @timeout 900
// @mem 12
// @functions bbiwrite::encode_zoom_section (uncompressed branch)
// @bounds 2 zoom records; coordinates, chromosome, covered bases (< 2^32) and the four statistics (any f64 bits) symbolic
// @cut zlib branch
// @witness cover: statistics that do not fit f32 exactly
#[kani::proof]
#[kani::unwind(4)]
fn c09_zoom_section_layout() {
    let (c, s0, e0, s1, e1): (u32, u32, u32, u32, u32) = (kani::any(), kani::any(), kani::any(), kani::any(), kani::any());
    let (bc0, bc1): (u32, u32) = (kani::any(), kani::any());
    let (mn, mx, sm, sq): (f64, f64, f64, f64) = (kani::any(), kani::any(), kani::any(), kani::any());
    let (mn1, mx1, sm1, sq1): (f64, f64, f64, f64) = (kani::any(), kani::any(), kani::any(), kani::any());
    let items = vec![
        ZoomRecord { chrom: c, start: s0, end: e0, summary: Summary { total_items: 1, bases_covered: bc0 as u64, min_val: mn, max_val: mx, sum: sm, sum_squares: sq } },
        ZoomRecord { chrom: c, start: s1, end: e1, summary: Summary { total_items: 1, bases_covered: bc1 as u64, min_val: mn1, max_val: mx1, sum: sm1, sum_squares: sq1 } },
    ];
    let r = poll_once(encode_zoom_section(false, items));
    let ok = match &r {
        Some(Ok((sd, ubs))) => {
            let d = &sd.data;
            *ubs == 0 && sd.chrom == c && sd.start == s0 && sd.end == e1 && d.len() == 64
                && v32(d, 0) == c && v32(d, 4) == s0 && v32(d, 8) == e0 && v32(d, 12) == bc0
                && v32(d, 16) == (mn as f32).to_bits() && v32(d, 20) == (mx as f32).to_bits()
                && v32(d, 24) == (sm as f32).to_bits() && v32(d, 28) == (sq as f32).to_bits()
                && v32(d, 32) == c && v32(d, 36) == s1 && v32(d, 40) == e1 && v32(d, 44) == bc1
                && v32(d, 48) == (mn1 as f32).to_bits() && v32(d, 52) == (mx1 as f32).to_bits()
                && v32(d, 56) == (sm1 as f32).to_bits() && v32(d, 60) == (sq1 as f32).to_bits()
        }
        _ => false,
    };
    core::mem::forget(r);
    assert!(ok, "[zoom_bytes] zoom block bytes differ from the 32-byte zoom record layout");
    let c1 = (sm as f32) as f64 != sm && !sm.is_nan();
    kani::cover!(c1, "sum not exactly representable in f32");
}

// ---------- independent decoder of a written R-tree (format description only; plain slices) ----------
fn w32(d: &[u8], o: usize) -> u32 { u32::from_ne_bytes([d[o], d[o + 1], d[o + 2], d[o + 3]]) }
fn w16(d: &[u8], o: usize) -> u16 { u16::from_ne_bytes([d[o], d[o + 1]]) }
fn w64(d: &[u8], o: usize) -> u64 {
    u64::from_ne_bytes([d[o], d[o + 1], d[o + 2], d[o + 3], d[o + 4], d[o + 5], d[o + 6], d[o + 7]])
}
const MAXLEAVES: usize = 8;
struct Walk {
    leaves: [(u32, u32, u32, u32, u64, u64); MAXLEAVES],
    n: usize,
    ok: bool,
    nodes: usize,
}
/// returns (lowest start key, highest end key) of everything beneath the node at `off`
fn walk_node(d: &[u8], off: usize, fanout: usize, w: &mut Walk, depth: usize) -> (u64, u64) {
    let mut lo = u64::MAX;
    let mut hi = 0u64;
    if depth > 4 || off + 4 > d.len() { w.ok = false; return (lo, hi); }
    w.nodes += 1;
    let isleaf = d[off];
    let count = w16(d, off + 2) as usize;
    if d[off + 1] != 0 || isleaf > 1 || count == 0 || count > fanout { w.ok = false; return (lo, hi); }
    let mut i = 0;
    while i < count {
        if isleaf == 1 {
            let o = off + 4 + i * 32;
            if o + 32 > d.len() || w.n >= MAXLEAVES { w.ok = false; return (lo, hi); }
            let it = (w32(d, o), w32(d, o + 4), w32(d, o + 8), w32(d, o + 12), w64(d, o + 16), w64(d, o + 24));
            w.leaves[w.n] = it;
            w.n += 1;
            let (ks, ke) = (key(it.0, it.1), key(it.2, it.3));
            if ks < lo { lo = ks; }
            if ke > hi { hi = ke; }
        } else {
            let o = off + 4 + i * 24;
            if o + 24 > d.len() { w.ok = false; return (lo, hi); }
            let (c1, s1, c2, e2, child) = (w32(d, o), w32(d, o + 4), w32(d, o + 8), w32(d, o + 12), w64(d, o + 16));
            let (clo, chi) = walk_node(d, child as usize, fanout, w, depth + 1);
            // the span recorded for a child must contain everything beneath it
            if key(c1, s1) > clo || key(c2, e2) < chi { w.ok = false; }
            if key(c1, s1) < lo { lo = key(c1, s1); }
            if key(c2, e2) > hi { hi = key(c2, e2); }
        }
        i += 1;
    }
    (lo, hi)
}

/// writer half of C05: the index written for `n` sections with fan-out `b` is a structurally valid
/// R-tree whose leaves are exactly the sections, in order, and whose spans contain what is beneath them
fn written_index_is_valid(n: usize, b: u32) {
    let (s0, s1, s2, s3, s4, s5, s6, s7): (u32, u32, u32, u32, u32, u32, u32, u32) = (kani::any(), kani::any(), kani::any(), kani::any(), kani::any(), kani::any(), kani::any(), kani::any());
    let (e0, e1, e2, e3, e4, e5, e6, e7): (u32, u32, u32, u32, u32, u32, u32, u32) = (kani::any(), kani::any(), kani::any(), kani::any(), kani::any(), kani::any(), kani::any(), kani::any());
    let split: usize = kani::any();
    kani::assume(split <= n);
    let ch = |i: usize| if i < split { 0u32 } else { 1u32 };
    kani::assume(s0 <= e0 && s1 <= e1 && s2 <= e2 && s3 <= e3 && s4 <= e4 && s5 <= e5 && s6 <= e6 && s7 <= e7);
    let ss = [s0, s1, s2, s3, s4, s5, s6, s7];
    let es = [e0, e1, e2, e3, e4, e5, e6, e7];
    let mut i = 1;
    while i < n {
        kani::assume(ch(i - 1) != ch(i) || ss[i - 1] <= ss[i]);
        i += 1;
    }
    let mut secs: Vec<Section> = Vec::with_capacity(n);
    let mut i = 0;
    while i < n {
        secs.push(Section { chrom: ch(i), start: ss[i], end: es[i], offset: 1000 + i as u64, size: 7 + i as u64 });
        i += 1;
    }
    let mut options = BBIWriteOptions::default();
    options.block_size = b;
    options.items_per_slot = 11;
    let (nodes, levels, total) = get_rtreeindex(secs.into_iter(), &options);
    // the index does not start at file offset 0: 16 bytes of "data" precede it
    let mut cur = std::io::Cursor::new(Vec::with_capacity(512));
    let pre = cur.write_all(&[0xAAu8; 16]);
    core::mem::forget(pre);
    let w = write_rtreeindex(&mut cur, nodes, levels, total, &options);
    let wok = w.is_ok();
    core::mem::forget(w);
    assert!(wok, "[write] write_rtreeindex failed on an in-memory destination");
    let d = cur.into_inner();
    let base = 16usize;
    // 48-byte header
    assert!(d.len() >= base + 48, "[hdr_len] index shorter than its header");
    assert!(w32(&d, base) == 0x2468_ACE0, "[hdr_magic] R-tree magic");
    assert!(w32(&d, base + 4) == b, "[hdr_blocksize] block size");
    assert!(w64(&d, base + 8) == n as u64, "[hdr_count] item count");
    assert!(w64(&d, base + 32) == 16, "[hdr_endofdata] end-of-data offset = where the index starts");
    assert!(w32(&d, base + 40) == 11 && w32(&d, base + 44) == 0, "[hdr_itemsperslot] items per slot / reserved");
    let mut wk = Walk { leaves: [(0, 0, 0, 0, 0, 0); MAXLEAVES], n: 0, ok: true, nodes: 0 };
    let (lo, hi) = walk_node(&d, base + 48, b as usize, &mut wk, 0);
    assert!(wk.ok, "[structure] node header / item count / child offset / containing-span violation in the written tree");
    assert!(wk.n == n, "[leaf_count] the leaves of the written tree are not exactly the sections");
    let mut i = 0;
    while i < n {
        let l = wk.leaves[i];
        assert!(l.0 == ch(i) && l.1 == ss[i] && l.2 == ch(i) && l.3 == es[i] && l.4 == 1000 + i as u64 && l.5 == 7 + i as u64,
            "[leaf_order] leaf item differs from the section at the same position (file order)");
        i += 1;
    }
    // header bounds contain everything
    assert!(key(w32(&d, base + 16), w32(&d, base + 20)) <= lo && key(w32(&d, base + 24), w32(&d, base + 28)) >= hi,
        "[hdr_bounds] index bounds do not contain every block");
    let c1 = (split > 0) & (split < n);
    kani::cover!(c1, "sections on two chromosomes");
    let c2 = e0 > es[n - 1];
    kani::cover!(c2, "first block ends after the last");
    core::mem::forget(d);
}

// @harness c05_written_index_n3_b2
// @props C05 C09 C04
// @tier quick
// @kind core
// @timeout 1800
// @mem 24
// @functions bbiwrite::{get_rtreeindex, write_rtreeindex, calculate_offsets, write_tree} -> bytes -> independent harness-side tree walker
// @bounds 3 blocks, fan-out 2 (2 levels, partly filled last leaf), index placed at file offset 16; spans full u32 width; blocks on one or two chromosomes (symbolic split)
// @assumes blocks sorted by (chromosome, start), start <= end (as the writers emit them)
// @cut reader side (c05_search_* harnesses); other shapes (thorough tier)
// @witness cover: two chromosomes; first block ends after the last
#[kani::proof]
#[kani::unwind(7)]
fn c05_written_index_n3_b2() {
    written_index_is_valid(3, 2);
}

// @harness c05_written_index_n5_b2
// @props C05 C09
// @tier quick
// @kind core
// @timeout 2400
// @mem 32
// @rss 16
// @functions as c05_written_index_n3_b2
// @bounds 5 blocks, fan-out 2 (3 levels: 3 leaves, 2 inner nodes, root; partly filled last nodes on two levels)
// @assumes as c05_written_index_n3_b2
#[kani::proof]
#[kani::unwind(8)]
fn c05_written_index_n5_b2() {
    written_index_is_valid(5, 2);
}

// @harness c05_written_index_n4_b3
// @props C05 C09
// @tier thorough
// @kind stretch
// @timeout 2400
// @mem 32
// @rss 16
// @functions as c05_written_index_n3_b2
// @bounds 4 blocks, fan-out 3 (2 levels: leaves of 3 and 1)
// @assumes as c05_written_index_n3_b2
#[kani::proof]
#[kani::unwind(8)]
fn c05_written_index_n4_b3() {
    written_index_is_valid(4, 3);
}

// @harness c09_chrom_tree_layout
// @props C09 C01 C02
// @tier thorough
// @kind stretch
// @timeout 3600
// @mem 24
// @rss 16
// @flags c-ffi
// @functions bbiwrite::write_chrom_tree (through std BufWriter; std HashMap with its real SipHash and hashbrown table)
// @bounds 1 chromosome with data ("a" id 0; size symbolic, full width) out of a size table that also lists a chromosome without data ("bb")
// @stubs std RandomState::new -> fixed hash keys (the output must not depend on them: ids decide the order); alloc::fmt::format -> empty
// @cut more chromosomes (hashbrown's SIMD group probing is slow to execute symbolically: 3+2 insertions did not finish in 30 min); id assignment order (IdMap) and the multi-chromosome pipeline
// @witness cover: non-zero size
#[kani::proof]
#[kani::unwind(20)]
#[kani::stub(alloc::fmt::format, fake_format)]
#[kani::stub(std::hash::RandomState::new, fixed_random_state)]
fn c09_chrom_tree_layout() {
    let (sa, sb): (u32, u32) = (kani::any(), kani::any());
    let mut sizes: HashMap<String, u32> = HashMap::new();
    sizes.insert(String::from("a"), sa);
    sizes.insert(String::from("bb"), sb);
    let mut ids: HashMap<String, u32> = HashMap::new();
    ids.insert(String::from("a"), 0);
    let mut st = Stats::new(0);
    let mut file = BufWriter::with_capacity(128, Sink(&mut st as *mut Stats));
    let r = write_chrom_tree(&mut file, sizes, &ids);
    let ok = r.is_ok();
    core::mem::forget(r);
    let fl = file.flush();
    let ok2 = fl.is_ok();
    core::mem::forget(fl);
    core::mem::forget(file);
    core::mem::forget(ids);
    assert!(ok && ok2, "[ok] write_chrom_tree failed on a healthy destination");
    let d = &st.data;
    assert!(rd32(d, 0) == 0x78CA_8C91, "[ct_magic] chromosome tree magic");
    assert!(rd32(d, 4) >= 1, "[ct_blocksize] block size must be at least the number of items in the single leaf");
    assert!(rd32(d, 8) == 1, "[ct_keysize] key size = longest stored chromosome name");
    assert!(rd32(d, 12) == 8, "[ct_valsize] value size = id + size");
    assert!(rd64(d, 16) == 1, "[ct_itemcount] item count must equal the number of chromosomes stored in the tree");
    assert!(rd64(d, 24) == 0, "[ct_reserved] reserved");
    assert!(d[32] == 1 && d[33] == 0 && rd16(d, 34) == 1, "[ct_leaf] leaf node header (isLeaf, reserved, count)");
    assert!(d[36] == b'a' && rd32(d, 37) == 0 && rd32(d, 41) == sa, "[ct_item0] chromosome item (name, id, size)");
    assert!(st.len == 45, "[ct_len] chromosome tree length");
    let c1 = sa != 0;
    kani::cover!(c1, "non-zero size");
}

// @harness c05_written_index_n7_b2
// @props C05 C09
// @tier thorough
// @kind stretch
// @timeout 3600
// @mem 40
// @rss 32
// @functions as c05_written_index_n3_b2
// @bounds 7 blocks, fan-out 2 (4 levels: 4 leaves, 2+1 inner nodes, root; partly filled last leaf)
// @assumes as c05_written_index_n3_b2
#[kani::proof]
#[kani::unwind(10)]
fn c05_written_index_n7_b2() {
    written_index_is_valid(7, 2);
}

// @harness c14_write_data_fault
// @props C14
// @tier quick
// @kind core
// @timeout 2400
// @mem 24
// @rss 12
// @functions bbiwrite::write_data (the task that writes encoded sections to the destination / staging buffer) over BufWriter<FaultySink>, as future_channel sets it up
// @bounds one finished section of 10 bytes in the channel, then the channel is closed; the k-th destination operation fails (k symbolic, 1..=4); BufWriter capacity 64 (>= the section, like the production 8 KiB buffer)
// @stubs the task hand-off `section_raw.await.unwrap()` is replaced in the scratch copy by `join_now(section_raw)` (result of an already finished task) and `frx.next().await` by `recv_now(&mut frx)` (a two-slot queue, closed when empty; two source substitutions; the native replay runs the unsubstituted function on the real channel and runtime); crossbeam_channel::Sender::send -> counted
// @sub src/bbi/bbiwrite.rs ::: section_raw.await.unwrap()?; ::: crate::verif_support::env::join_now(section_raw)?; ||| src/bbi/bbiwrite.rs ::: while let Some(section_raw) = frx.next().await { ::: while let Some(section_raw) = crate::verif_support::env::recv_now(&mut frx) {
// @assumes a failed destination operation returns io::ErrorKind::Other and has no effect
// @cut several sections; the consumer side (write_chroms_*) and the real tokio scheduling
// @witness cover: a failure was delivered; no failure within the run
#[kani::proof]
#[kani::unwind(4)]
#[kani::stub(crossbeam_channel::Sender::send, crate::verif_support::env::fake_cb_send)]
#[kani::stub(alloc::fmt::format, fake_format)]
fn c14_write_data_fault() {
    use crate::verif_support::env::*;
    let k: usize = kani::any();
    kani::assume(k >= 1 && k <= 4);
    let mut st = Stats::new(k);
    let env = Env::new();
    let (mut tx, rx) = futures::channel::mpsc::channel::<Msg>(2);
    let mut data = Vec::with_capacity(10);
    data.extend_from_slice(&[1u8, 2, 3, 4, 5, 6, 7, 8, 9, 10]);
    let sd = SectionData { chrom: 0, start: 0, end: 5, data };
    queue_for_recv(&mut tx, env.ready_task(Ok((sd, 0))));
    #[cfg(verif_replay)]
    drop(tx);
    #[cfg(not(verif_replay))]
    core::mem::forget(tx);
    let (stx, srx) = crossbeam_channel::unbounded::<Section>();
    core::mem::forget(srx);
    // keep a second sender alive (and never drop it): write_data's own sender is then not the last one and
    // its drop is a counter decrement instead of crossbeam's disconnect/wake-up machinery
    let keep = stx.clone();
    core::mem::forget(keep);
    let file = BufWriter::with_capacity(64, CountSink(&mut st as *mut Stats));
    let r = drive(write_data(file, stx, rx));
    let (done, reported_ok) = match &r { Some(Ok(_)) => (true, true), Some(Err(_)) => (true, false), None => (false, false) };
    core::mem::forget(r);
    assert!(done, "[total] write_data suspended although its channel is closed");
    // the BufWriter was dropped inside write_data: every buffered byte has had its chance to reach the destination
    if st.failed {
        assert!(!reported_ok, "[swallowed] a destination failure was swallowed: write_data reported Ok");
    }
    if reported_ok {
        assert!(st.len == 10, "[complete] Ok reported but the section bytes are not on the destination");
        assert!(cb_sent() == 1, "[indexed] Ok reported but the section was not announced to the index builder");
    }
    let c1 = st.failed;
    kani::cover!(c1, "a failure was delivered");
    let c2 = !st.failed;
    kani::cover!(c2, "no failure within the run");
}

// @harness c13_rtreeindex_empty_terminates
// @props C13
// @tier quick
// @kind core
// @timeout 600
// @mem 12
// @unwind_is_property yes
// @replay inputfree
// @functions bbiwrite::get_rtreeindex on an EMPTY section stream (what write_mid sees for empty input and write_zooms sees for a zoom level without records, e.g. only zero-length bigBed entries)
// @bounds no symbolic input: block size 256 (default); the level-reduction loop must exit within 8 iterations
// @cut how the callers should treat an empty index (error for empty input / skipped zoom level)
// @witness none (termination within the unwinding bound is the property)
#[kani::proof]
#[kani::unwind(8)]
fn c13_rtreeindex_empty_terminates() {
    let options = BBIWriteOptions::default();
    let (nodes, levels, total) = get_rtreeindex(core::iter::empty::<Section>(), &options);
    assert!(total == 0 && levels == 0, "[empty_index] an empty stream must give an empty single-level index");
    core::mem::forget(nodes);
}

// @harness c09_chrom_tree_two
// @props C09 C01 C02
// @tier off
// @kind stretch
// @timeout 7200
// @mem 32
// @flags c-ffi
// @measured timeout after 7200 s in symbolic execution (hashbrown SIMD probing, two insertions per map); kept off
// @functions bbiwrite::write_chrom_tree (std HashMap with real SipHash / hashbrown)
// @bounds 2 chromosomes with data whose names have different lengths, the longer one first in id order ("bb" id 0, "a" id 1); sizes symbolic
// @stubs std RandomState::new -> fixed hash keys; alloc::fmt::format -> empty
// @cut more chromosomes; id assignment (IdMap)
// @witness cover: sizes differ
#[kani::proof]
#[kani::unwind(20)]
#[kani::stub(alloc::fmt::format, fake_format)]
#[kani::stub(std::hash::RandomState::new, fixed_random_state)]
fn c09_chrom_tree_two() {
    let (sa, sb): (u32, u32) = (kani::any(), kani::any());
    let mut sizes: HashMap<String, u32> = HashMap::new();
    sizes.insert(String::from("a"), sa);
    sizes.insert(String::from("bb"), sb);
    let mut ids: HashMap<String, u32> = HashMap::new();
    ids.insert(String::from("bb"), 0);
    ids.insert(String::from("a"), 1);
    let mut st = Stats::new(0);
    let mut file = BufWriter::with_capacity(128, Sink(&mut st as *mut Stats));
    let r = write_chrom_tree(&mut file, sizes, &ids);
    let ok = r.is_ok();
    core::mem::forget(r);
    let fl = file.flush();
    let ok2 = fl.is_ok();
    core::mem::forget(fl);
    core::mem::forget(file);
    core::mem::forget(ids);
    assert!(ok && ok2, "[ok] write_chrom_tree failed on a healthy destination");
    let d = &st.data;
    assert!(rd32(d, 0) == 0x78CA_8C91 && rd32(d, 8) == 2 && rd32(d, 12) == 8 && rd64(d, 16) == 2 && rd64(d, 24) == 0, "[ct_header] chromosome tree header (magic, key size, value size, item count, reserved)");
    assert!(rd32(d, 4) >= 2, "[ct_blocksize] block size must be at least the number of items in the single leaf");
    assert!(d[32] == 1 && d[33] == 0 && rd16(d, 34) == 2, "[ct_leaf] leaf node header");
    assert!(d[36] == b'b' && d[37] == b'b' && rd32(d, 38) == 0 && rd32(d, 42) == sb, "[ct_item0] first chromosome item (name, id, size)");
    assert!(d[46] == b'a' && d[47] == 0 && rd32(d, 48) == 1 && rd32(d, 52) == sa, "[ct_item1] second chromosome item: key must be the name padded with NULs");
    assert!(st.len == 56, "[ct_len] chromosome tree length");
    let c1 = sa != sb;
    kani::cover!(c1, "sizes differ");
}

// @harness c09_chrom_tree_three
// @props C09 C01 C02
// @tier quick
// @kind core
// @timeout 1800
// @mem 16
// @sub src/bbi/bbiwrite.rs ::: use std::collections::{BTreeMap, HashMap}; ::: use std::collections::BTreeMap; use crate::verif_support::hmapw::HashMap; ||| src/bbi/bbiwrite.rs ::: chrom_sizes: std::collections::HashMap<String, u32>, ::: chrom_sizes: HashMap<String, u32>, ||| src/bbi/bbiwrite.rs ::: chrom_ids: &std::collections::HashMap<String, u32>, ::: chrom_ids: &HashMap<String, u32>, ||| src/bbi/bigwigwrite.rs ::: use std::collections::HashMap; ::: use crate::verif_support::hmapw::HashMap; ::: 2 ||| src/bbi/bigbedwrite.rs ::: use std::collections::HashMap; ::: use crate::verif_support::hmapw::HashMap; ||| src/utils/idmap.rs ::: use std::collections::HashMap; ::: use crate::verif_support::hmapw::HashMap;
// @functions bbiwrite::write_chrom_tree (through std BufWriter) and utils::idmap::IdMap::get_id / get_map, with std HashMap replaced by the association-list model verif_support::hmapw in the scratch copy (six import/type substitutions)
// @bounds 3 chromosomes with data whose ids come from IdMap in first-seen order "ccc", "a", "bb" (name lengths 3, 1, 2: a shorter key after a longer one), looked up again afterwards; the size table lists them in another order plus a chromosome without data ("zz"); sizes symbolic, full width
// @stubs alloc::fmt::format -> empty; core::ptr::copy_nonoverlapping -> element-wise typed copy loop (same contract; keeps the ids compared by the insertion sort constant)
// @assumes std's HashMap behaves as a finite map with unspecified iteration order (the model iterates in reverse insertion order; it is not solver-checked against hashbrown, whose SIMD probing does not finish symbolic execution)
// @cut more than 4 map entries; non-leaf chromosome tree nodes (the writer never produces them)
// @witness cover: sizes differ
#[kani::proof]
#[kani::unwind(80)]
#[kani::stub(core::ptr::copy_nonoverlapping, copy_typed_loop)]
#[kani::stub(alloc::fmt::format, fake_format)]
fn c09_chrom_tree_three() {
    let (sa, sb, sc, sz): (u32, u32, u32, u32) = (kani::any(), kani::any(), kani::any(), kani::any());
    let mut sizes: HashMap<String, u32> = HashMap::new();
    sizes.insert(String::from("a"), sa);
    sizes.insert(String::from("zz"), sz);
    sizes.insert(String::from("bb"), sb);
    sizes.insert(String::from("ccc"), sc);
    let mut idmap = crate::utils::idmap::IdMap::default();
    let i0 = idmap.get_id("ccc");
    let i1 = idmap.get_id("a");
    let i0b = idmap.get_id("ccc");
    let i2 = idmap.get_id("bb");
    let i1b = idmap.get_id("a");
    assert!(i0 == 0 && i1 == 1 && i2 == 2 && i0b == 0 && i1b == 1, "[ids] chromosome ids must be dense, in first-seen order, and stable");
    let ids = idmap.get_map();
    let mut st = Stats::new(0);
    let mut file = BufWriter::with_capacity(128, Sink(&mut st as *mut Stats));
    let r = write_chrom_tree(&mut file, sizes, &ids);
    let ok = r.is_ok();
    core::mem::forget(r);
    let fl = file.flush();
    let ok2 = fl.is_ok();
    core::mem::forget(fl);
    core::mem::forget(file);
    core::mem::forget(ids);
    assert!(ok && ok2, "[ok] write_chrom_tree failed on a healthy destination");
    let d = &st.data;
    assert!(rd32(d, 0) == 0x78CA_8C91 && rd32(d, 8) == 3 && rd32(d, 12) == 8 && rd64(d, 24) == 0, "[ct_header] chromosome tree header (magic, key size = longest name, value size, reserved)");
    assert!(rd64(d, 16) == 3, "[ct_itemcount] item count must equal the number of chromosomes stored in the tree");
    assert!(rd32(d, 4) >= 3, "[ct_blocksize] block size must be at least the number of items in the single leaf");
    assert!(d[32] == 1 && d[33] == 0 && rd16(d, 34) == 3, "[ct_leaf] leaf node header (isLeaf, reserved, count)");
    assert!(d[36] == b'c' && d[37] == b'c' && d[38] == b'c' && rd32(d, 39) == 0 && rd32(d, 43) == sc, "[ct_item0] first chromosome item (name, id, size)");
    assert!(d[47] == b'a' && d[48] == 0 && d[49] == 0 && rd32(d, 50) == 1 && rd32(d, 54) == sa, "[ct_item1] second item: items in id order, key = name padded with NULs");
    assert!(d[58] == b'b' && d[59] == b'b' && d[60] == 0 && rd32(d, 61) == 2 && rd32(d, 65) == sb, "[ct_item2] third item: key = name padded with NULs");
    assert!(st.len == 69, "[ct_len] chromosome tree length");
    let c1 = (sa != sb) & (sb != sc);
    kani::cover!(c1, "sizes differ");
}

fn spin_w(n: u64) -> u64 { let mut i = 0; while i < n { i += 1; } i }
// @harness probe_idmap_constprop
// @props X
// @tier off
// @kind stretch
// @timeout 600
// @mem 8
// @sub src/bbi/bbiwrite.rs ::: use std::collections::{BTreeMap, HashMap}; ::: use std::collections::BTreeMap; use crate::verif_support::hmapw::HashMap; ||| src/bbi/bbiwrite.rs ::: chrom_sizes: std::collections::HashMap<String, u32>, ::: chrom_sizes: HashMap<String, u32>, ||| src/bbi/bbiwrite.rs ::: chrom_ids: &std::collections::HashMap<String, u32>, ::: chrom_ids: &HashMap<String, u32>, ||| src/bbi/bigwigwrite.rs ::: use std::collections::HashMap; ::: use crate::verif_support::hmapw::HashMap; ::: 2 ||| src/bbi/bigbedwrite.rs ::: use std::collections::HashMap; ::: use crate::verif_support::hmapw::HashMap; ||| src/utils/idmap.rs ::: use std::collections::HashMap; ::: use crate::verif_support::hmapw::HashMap;
// @functions probe only
// @bounds probe
#[kani::proof]
#[kani::unwind(20)]
#[kani::stub(core::ptr::copy_nonoverlapping, copy_typed_loop)]
#[kani::stub(alloc::fmt::format, fake_format)]
fn probe_idmap_constprop() {
    let mut idmap = crate::utils::idmap::IdMap::default();
    let i0 = idmap.get_id("ccc");
    let i1 = idmap.get_id("a");
    let i0b = idmap.get_id("ccc");
    let i2 = idmap.get_id("bb");
    let r = spin_w(i0 as u64 + 1) + spin_w(i1 as u64 + 1) + spin_w(i0b as u64 + 1) + spin_w(i2 as u64 + 1);
    let ids = idmap.get_map();
    let mut chroms: Vec<(&String, &u32)> = ids.iter().collect();
    let r2 = spin_w(chroms.len() as u64) + spin_w(*chroms[0].1 as u64 + 1);
    chroms.sort_by_key(|v| *v.1);
    let r3 = spin_w(*chroms[0].1 as u64 + 1) + spin_w(*chroms[2].1 as u64 + 1);
    assert!(r == 7 && r2 == 6 && r3 == 4);
    core::mem::forget(chroms);
    core::mem::forget(ids);
}


// @harness c14_chrom_result_propagates
// @props C14
// @tier off
// @kind core
// @timeout 2400
// @mem 24
// @flags c-ffi
// @functions bbiwrite::write_chroms_with_zooms (the task that collects, per chromosome, the staged section bytes and the RESULT of that chromosome's write_data task), with TempFileBuffer::switch / await_real_file (real code, in-memory staging)
// @bounds one chromosome message (no zoom levels), then the channel is closed; the chromosome's write_data task has finished with Ok or with an I/O error (symbolic); staging buffer empty and closed
// @stubs channel receive `receiver.next().await` -> `recv_boxed(&mut receiver)` and task join `data_write_future.await.unwrap()` -> `join_now_t(data_write_future)` by source substitution in the scratch copy (native replay: the real channel, runtime and JoinHandle); tempfile::tempfile -> Err (in-memory staging); io::copy asserted unreachable; alloc::fmt::format -> empty
// @sub src/bbi/bbiwrite.rs ::: let read = receiver.next().await; ::: let read = crate::verif_support::env::recv_boxed(&mut receiver); ::: 2 ||| src/bbi/bbiwrite.rs ::: = data_write_future.await.unwrap()?; ::: = crate::verif_support::env::join_now_t(data_write_future)?; ::: 2 ||| src/bbi/bbiwrite.rs ::: let data_write_data = data_write_future.await; ::: let data_write_data = Ok::<_, tokio::task::JoinError>(crate::verif_support::env::join_now_t(data_write_future)); ::: 2
// @measured does not finish: the per-chromosome message is destructured out of an `Option<(Receiver, TempFileBuffer, JoinHandle, Vec<TempZoomInfo>)>` (niche-encoded enum = C union for CBMC, DESIGN 6.1 item 4), after which the staging buffer's Arc pointers and the zoom vector's length are opaque; symbolic execution then explores the zoom loop with garbage and the drop glue of JoinError (Box<dyn Any>) until memory runs out (24 GB, 11 min). Kept off; seed C14-4 missed
// @assumes call-level atomicity of the staging buffer (C12)
// @cut zoom levels (TempZoomInfo over File), several chromosomes, what the callers do with the returned error
// @witness cover: the data task failed; it succeeded
#[kani::proof]
#[kani::unwind(6)]
#[kani::stub(alloc::fmt::format, fake_format)]
#[kani::stub(tempfile::tempfile, crate::verif_support::fake_tempfile_err)]
#[kani::stub(std::io::copy, crate::verif_support::io_copy_unreachable)]
fn c14_chrom_result_propagates() {
    use crate::verif_support::env::*;
    let fail: bool = kani::any();
    let mut st = Stats::new(0);
    let env = Env::new();
    let file = BufWriter::with_capacity(64, Sink(&mut st as *mut Stats));
    let (data, writer): (TempFileBuffer<BufWriter<Sink>>, TempFileBufferWriter<BufWriter<Sink>>) = TempFileBuffer::new(true);
    drop(writer); // the chromosome's write_data task is over
    let (stx, srx) = crossbeam_channel::unbounded::<Section>();
    core::mem::forget(stx);
    let out: Result<(usize, usize), ProcessDataError> = if fail { Err(ProcessDataError::IoError(io::Error::from(io::ErrorKind::Other))) } else { Ok((1, 7)) };
    let h = ready_task_t(&env, out);
    let (mut tx, rx) = futures::channel::mpsc::unbounded::<Data<Sink>>();
    queue_boxed(&mut tx, (srx, data, h, Vec::new()));
    #[cfg(verif_replay)]
    drop(tx);
    #[cfg(not(verif_replay))]
    core::mem::forget(tx);
    let r = drive(write_chroms_with_zooms(file, BTreeMap::new(), rx));
    let (done, is_ok, ubs) = match &r {
        Some(Ok((_f, m, _s, _z))) => (true, true, *m),
        Some(Err(_)) => (true, false, 0),
        None => (false, false, 0),
    };
    core::mem::forget(r);
    assert!(done, "[total] write_chroms_with_zooms suspended although its channel is closed and the task finished");
    assert!(is_ok == !fail, "[swallowed] a chromosome whose data task failed must make the collector fail (and a healthy one must not)");
    if is_ok {
        assert!(ubs == 7, "[ubs] the uncompressed buffer size reported by the data task must be carried to the header");
    }
    kani::cover!(fail, "the data task failed");
    let c2 = !fail;
    kani::cover!(c2, "the data task succeeded");
}
