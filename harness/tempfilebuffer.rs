use super::*;
use std::num::NonZeroU32;

// destination: a 4-byte handle (same size class as std::fs::File, so AtomicCell<Option<R>> takes the
// lock-free path the production TempFileBuffer<File> takes) onto a static byte log
const LOGCAP: usize = 8;
static mut DEST: [u8; LOGCAP] = [0; LOGCAP];
static mut DEST_LEN: usize = 0;
static mut DEST_WRITES: usize = 0;

struct Dest(NonZeroU32);
impl Write for Dest {
    fn write(&mut self, buf: &[u8]) -> io::Result<usize> {
        unsafe {
            let n = buf.len();
            kani::assert(DEST_LEN + n <= LOGCAP, "[dest] log capacity");
            let mut i = 0;
            while i < n {
                DEST[DEST_LEN + i] = buf[i];
                i += 1;
            }
            DEST_LEN += n;
            DEST_WRITES += 1;
            Ok(n)
        }
    }
    fn flush(&mut self) -> io::Result<()> {
        Ok(())
    }
}

fn consumer_switch_await(buf: &mut Option<TempFileBuffer<Dest>>, step: u8, at: u8, switched: &mut bool) {
    if step == at && !*switched {
        if let Some(b) = buf.as_mut() {
            b.switch(Dest(NonZeroU32::new(1).unwrap()));
            *switched = true;
        }
    }
}

// @harness c12_switch_any_point_inmemory
// @props C12
// @tier quick
// @kind core
// @timeout 1500
// @mem 24
// @fs 16384
// @flags c-ffi
// @functions TempFileBuffer::{new, switch, await_real_file}, TempFileBufferWriter::{write (update), flush, drop}; instantiation R = Dest(NonZeroU32)
// @bounds producer: 2 writes (1 byte, then 2 bytes; symbolic contents), then drop; consumer: switch at a symbolic position p in {before write 1, between the writes, after write 2, after the drop}, then await_real_file; in-memory staging
// @stubs tempfile::tempfile -> Err (never called: in-memory staging); libc syscall (futex wake from Condvar::notify_one) -> returns 0 in the C model
// @assumes call-level atomicity: every public call touches the shared state in one AtomicCell::swap or one mutex-protected section, so each concurrent execution is equivalent to an interleaving of whole calls (argued in DESIGN.md, not explored); blocking calls are scheduled only when enabled
// @cut temp-file staging (quick tier); sub-call interleavings; the seqlock path of AtomicCell for handles larger than 8 bytes
// @witness cover: switch lands between the two writes; switch lands after the producer finished
#[kani::proof]
#[kani::unwind(4)]
#[kani::stub(tempfile::tempfile, crate::verif_support::fake_tempfile_err)]
fn c12_switch_any_point_inmemory() {
    let p: u8 = kani::any();
    kani::assume(p <= 3);
    let (b0, b1, b2, b3): (u8, u8, u8, u8) = (kani::any(), kani::any(), kani::any(), kani::any());
    // concrete sizes (1 and 2 bytes), symbolic contents: a symbolic write length turns every copy into a
    // variable-length memcpy (measured: 5.5M symex steps, out of memory)
    let (n1, n2): (usize, usize) = (1, 2);
    let (buf, mut writer): (TempFileBuffer<Dest>, TempFileBufferWriter<Dest>) = TempFileBuffer::new(true);
    let mut buf = Some(buf);
    let mut switched = false;
    let w1 = [b0, b1];
    let w2 = [b2, b3];
    consumer_switch_await(&mut buf, 0, p, &mut switched);
    let r1 = writer.write(&w1[..n1]);
    consumer_switch_await(&mut buf, 1, p, &mut switched);
    let r2 = writer.write(&w2[..n2]);
    consumer_switch_await(&mut buf, 2, p, &mut switched);
    let fl = writer.flush();
    drop(writer);
    consumer_switch_await(&mut buf, 3, p, &mut switched);
    let ok = match (&r1, &r2, &fl) { (Ok(a), Ok(b), Ok(())) => *a == n1 && *b == n2, _ => false };
    core::mem::forget(r1); core::mem::forget(r2); core::mem::forget(fl);
    assert!(ok, "[write_ok] a staged write failed or was short");
    assert!(switched, "[sched] consumer scheduled");
    // the producer is done: waiting must be enabled (no deadlock at call granularity) and return the file
    let b = buf.take().unwrap();
    assert!(b.is_real_file_ready(), "[ready] producer finished but the buffer is not reported closed");
    let dest = b.await_real_file();
    core::mem::forget(dest);
    unsafe {
        assert!(DEST_LEN == n1 + n2, "[len] destination does not hold exactly the bytes written");
        let mut want = [0u8; 4];
        let mut k = 0;
        want[k] = b0; k += 1;
        if n1 == 2 { want[k] = b1; k += 1; }
        want[k] = b2; k += 1;
        if n2 == 2 { want[k] = b3; k += 1; }
        let mut i = 0;
        while i < 4 {
            if i < k {
                assert!(DEST[i] == want[i], "[order] destination bytes differ from the bytes written, in order");
            }
            i += 1;
        }
    }
    let c1 = p == 1;
    kani::cover!(c1, "switch between the writes");
    let c2 = p == 3;
    kani::cover!(c2, "switch after the producer finished");
}

// @harness c12_unswitched_len_and_copy
// @props C12
// @tier quick
// @kind core
// @timeout 1500
// @mem 24
// @fs 16384
// @flags c-ffi
// @functions TempFileBuffer::{new, len, expect_closed_write, is_real_file_ready}, TempFileBufferWriter::{write, drop}
// @bounds producer: 0..=2 writes (1 byte, then 2 bytes; symbolic contents), then drop; consumer never switches: readiness polled at a symbolic point, then len, then expect_closed_write into a destination; in-memory staging
// @assumes as c12_switch_any_point_inmemory
// @witness cover: zero writes; polled before the producer finished
#[kani::proof]
#[kani::unwind(4)]
#[kani::stub(tempfile::tempfile, crate::verif_support::fake_tempfile_err)]
fn c12_unswitched_len_and_copy() {
    let nw: u8 = kani::any();
    kani::assume(nw <= 2);
    let poll_at: u8 = kani::any();
    kani::assume(poll_at <= 2);
    let (b0, b1, b2, b3): (u8, u8, u8, u8) = (kani::any(), kani::any(), kani::any(), kani::any());
    // concrete sizes (1 and 2 bytes), symbolic contents: a symbolic write length turns every copy into a
    // variable-length memcpy (measured: 5.5M symex steps, out of memory)
    let (n1, n2): (usize, usize) = (1, 2);
    let (buf, mut writer): (TempFileBuffer<Dest>, TempFileBufferWriter<Dest>) = TempFileBuffer::new(true);
    let w1 = [b0, b1];
    let w2 = [b2, b3];
    let mut total = 0usize;
    if poll_at == 0 { assert!(!buf.is_real_file_ready(), "[poll_early] reported closed while the producer is alive"); }
    if nw >= 1 {
        let r = writer.write(&w1[..n1]);
        let ok = match &r { Ok(a) => *a == n1, _ => false };
        core::mem::forget(r);
        assert!(ok, "[write_ok] staged write 1");
        total += n1;
    }
    if poll_at == 1 { assert!(!buf.is_real_file_ready(), "[poll_mid] reported closed while the producer is alive"); }
    if nw >= 2 {
        let r = writer.write(&w2[..n2]);
        let ok = match &r { Ok(a) => *a == n2, _ => false };
        core::mem::forget(r);
        assert!(ok, "[write_ok] staged write 2");
        total += n2;
    }
    drop(writer);
    assert!(buf.is_real_file_ready(), "[poll_done] producer finished but not reported closed");
    let l = buf.len();
    let lok = match &l { Ok(x) => *x == total as u64, _ => false };
    core::mem::forget(l);
    assert!(lok, "[staged_len] reported staged length differs from the number of bytes written");
    let mut dest = Dest(NonZeroU32::new(1).unwrap());
    let r = buf.expect_closed_write(&mut dest);
    let rok = r.is_ok();
    core::mem::forget(r);
    assert!(rok, "[copy_ok] copying the closed buffer failed");
    unsafe {
        assert!(DEST_LEN == total, "[len] destination does not hold exactly the bytes written");
        if nw >= 1 { assert!(DEST[0] == b0, "[order] first byte"); }
        if nw >= 2 { assert!(DEST[n1] == b2, "[order] first byte of the second write"); }
    }
    let c1 = nw == 0;
    kani::cover!(c1, "zero writes");
    let c2 = (poll_at == 1) & (nw == 2);
    kani::cover!(c2, "polled between writes");
}
