use super::*;
use std::num::NonZeroU32;

// destination: a 4-byte handle (same size class as std::fs::File, so AtomicCell<Option<R>> takes the
// lock-free path the production TempFileBuffer<File> takes) onto a static byte log
const LOGCAP: usize = 8;
// NOTE: statics must not start with all-zero (or otherwise "constant-looking") bytes: kani-compiler 0.68
// materialises alloc-backed constants such as `Ok(())` by reading from any allocation with identical
// bytes, including a mutable static of the harness (observed: update() "returned Err" because its
// `Ok(())` was read from a zero-initialised counter that the harness had incremented).
const LEN_BASE: usize = 0x5EED_C12A_0000_1000;
static mut DEST: [u8; LOGCAP] = [0xA1, 0xA2, 0xA3, 0xA4, 0xA5, 0xA6, 0xA7, 0xA8];
static mut DEST_LEN_RAW: usize = LEN_BASE;
fn dest_len() -> usize { unsafe { DEST_LEN_RAW - LEN_BASE } }

struct Dest(u32);
impl Write for Dest {
    fn write(&mut self, buf: &[u8]) -> io::Result<usize> {
        unsafe {
            let n = buf.len();
            let l = dest_len();
            kani::assert(l + n <= LOGCAP, "[dest] log capacity");
            let mut i = 0;
            while i < n {
                DEST[l + i] = buf[i];
                i += 1;
            }
            DEST_LEN_RAW += n;
            Ok(n)
        }
    }
    fn flush(&mut self) -> io::Result<()> {
        Ok(())
    }
}

fn consumer_switch_await(buf: &mut Option<TempFileBuffer<Dest>>, step: u8, at: u8, switched: &mut bool) {
    if step == at && !*switched {
        if let Some(b) = buf.as_mut() {
            b.switch(Dest(1));
            *switched = true;
        }
    }
}

// @harness c12_switch_p0
// @props C12
// @tier quick
// @kind core
// @timeout 900
// @mem 16
// @flags c-ffi
// @functions TempFileBuffer::{new, switch, is_real_file_ready, await_real_file}, TempFileBufferWriter::{write (update), flush, drop}; instantiation R = Dest(NonZeroU32)
// @bounds producer: 2 writes (1 byte, then 2 bytes; symbolic contents), then drop; consumer: `switch` lands at call-level position 0 of 4 (before the first write), then await_real_file; in-memory staging. The 4 positions are 4 harness instances: with a symbolic position the writer's BufferState enum merges into a symbolic variant and the formula exceeded 24 GB (measured)
// @stubs tempfile::tempfile -> Err (never called: in-memory staging); libc syscall (futex wake from Condvar::notify_one) -> returns 0 in the C model; Vec::reserve -> asserts the 10 000-byte staging capacity suffices (no reallocation); std::io::copy -> asserted unreachable (temp-file arms)
// @assumes call-level atomicity: every public call touches the shared state in one AtomicCell::swap or one mutex-protected section, so each concurrent execution is equivalent to an interleaving of whole calls (argued in DESIGN.md, not explored); blocking calls are scheduled only when enabled
// @cut temp-file staging; sub-call interleavings; the seqlock path of AtomicCell for handles larger than 8 bytes; more than 2 writes
// @witness cover: non-zero bytes delivered
#[kani::proof]
#[kani::unwind(6)]
#[kani::stub(tempfile::tempfile, crate::verif_support::fake_tempfile_err)]
#[kani::stub(alloc::vec::Vec::reserve, crate::verif_support::reserve_within_capacity)]
#[kani::stub(std::io::copy, crate::verif_support::io_copy_unreachable)]
fn c12_switch_p0() {
    switch_at(0);
}

// @harness c12_switch_p1
// @props C12
// @tier quick
// @kind core
// @timeout 900
// @mem 16
// @rss 15
// @flags c-ffi
// @functions TempFileBuffer::{new, switch, is_real_file_ready, await_real_file}, TempFileBufferWriter::{write (update), flush, drop}; instantiation R = Dest(NonZeroU32)
// @bounds producer: 2 writes (1 byte, then 2 bytes; symbolic contents), then drop; consumer: `switch` lands at call-level position 1 of 4 (between the two writes), then await_real_file; in-memory staging. The 4 positions are 4 harness instances: with a symbolic position the writer's BufferState enum merges into a symbolic variant and the formula exceeded 24 GB (measured)
// @stubs tempfile::tempfile -> Err (never called: in-memory staging); libc syscall (futex wake from Condvar::notify_one) -> returns 0 in the C model; Vec::reserve -> asserts the 10 000-byte staging capacity suffices (no reallocation); std::io::copy -> asserted unreachable (temp-file arms)
// @assumes call-level atomicity: every public call touches the shared state in one AtomicCell::swap or one mutex-protected section, so each concurrent execution is equivalent to an interleaving of whole calls (argued in DESIGN.md, not explored); blocking calls are scheduled only when enabled
// @cut temp-file staging; sub-call interleavings; the seqlock path of AtomicCell for handles larger than 8 bytes; more than 2 writes
// @witness cover: non-zero bytes delivered
#[kani::proof]
#[kani::unwind(6)]
#[kani::stub(tempfile::tempfile, crate::verif_support::fake_tempfile_err)]
#[kani::stub(alloc::vec::Vec::reserve, crate::verif_support::reserve_within_capacity)]
#[kani::stub(std::io::copy, crate::verif_support::io_copy_unreachable)]
fn c12_switch_p1() {
    switch_at(1);
}

// @harness c12_switch_p2
// @props C12
// @tier quick
// @kind core
// @timeout 900
// @mem 16
// @flags c-ffi
// @functions TempFileBuffer::{new, switch, is_real_file_ready, await_real_file}, TempFileBufferWriter::{write (update), flush, drop}; instantiation R = Dest(NonZeroU32)
// @bounds producer: 2 writes (1 byte, then 2 bytes; symbolic contents), then drop; consumer: `switch` lands at call-level position 2 of 4 (after the second write, before the producer finishes), then await_real_file; in-memory staging. The 4 positions are 4 harness instances: with a symbolic position the writer's BufferState enum merges into a symbolic variant and the formula exceeded 24 GB (measured)
// @stubs tempfile::tempfile -> Err (never called: in-memory staging); libc syscall (futex wake from Condvar::notify_one) -> returns 0 in the C model; Vec::reserve -> asserts the 10 000-byte staging capacity suffices (no reallocation); std::io::copy -> asserted unreachable (temp-file arms)
// @assumes call-level atomicity: every public call touches the shared state in one AtomicCell::swap or one mutex-protected section, so each concurrent execution is equivalent to an interleaving of whole calls (argued in DESIGN.md, not explored); blocking calls are scheduled only when enabled
// @cut temp-file staging; sub-call interleavings; the seqlock path of AtomicCell for handles larger than 8 bytes; more than 2 writes
// @witness cover: non-zero bytes delivered
#[kani::proof]
#[kani::unwind(6)]
#[kani::stub(tempfile::tempfile, crate::verif_support::fake_tempfile_err)]
#[kani::stub(alloc::vec::Vec::reserve, crate::verif_support::reserve_within_capacity)]
#[kani::stub(std::io::copy, crate::verif_support::io_copy_unreachable)]
fn c12_switch_p2() {
    switch_at(2);
}

// @harness c12_switch_p3
// @props C12
// @tier quick
// @kind core
// @timeout 900
// @mem 16
// @flags c-ffi
// @functions TempFileBuffer::{new, switch, is_real_file_ready, await_real_file}, TempFileBufferWriter::{write (update), flush, drop}; instantiation R = Dest(NonZeroU32)
// @bounds producer: 2 writes (1 byte, then 2 bytes; symbolic contents), then drop; consumer: `switch` lands at call-level position 3 of 4 (after the producer has finished), then await_real_file; in-memory staging. The 4 positions are 4 harness instances: with a symbolic position the writer's BufferState enum merges into a symbolic variant and the formula exceeded 24 GB (measured)
// @stubs tempfile::tempfile -> Err (never called: in-memory staging); libc syscall (futex wake from Condvar::notify_one) -> returns 0 in the C model; Vec::reserve -> asserts the 10 000-byte staging capacity suffices (no reallocation); std::io::copy -> asserted unreachable (temp-file arms)
// @assumes call-level atomicity: every public call touches the shared state in one AtomicCell::swap or one mutex-protected section, so each concurrent execution is equivalent to an interleaving of whole calls (argued in DESIGN.md, not explored); blocking calls are scheduled only when enabled
// @cut temp-file staging; sub-call interleavings; the seqlock path of AtomicCell for handles larger than 8 bytes; more than 2 writes
// @witness cover: non-zero bytes delivered
#[kani::proof]
#[kani::unwind(6)]
#[kani::stub(tempfile::tempfile, crate::verif_support::fake_tempfile_err)]
#[kani::stub(alloc::vec::Vec::reserve, crate::verif_support::reserve_within_capacity)]
#[kani::stub(std::io::copy, crate::verif_support::io_copy_unreachable)]
fn c12_switch_p3() {
    switch_at(3);
}

fn switch_at(p: u8) {
    let (b0, b1, b2, b3): (u8, u8, u8, u8) = (kani::any(), kani::any(), kani::any(), kani::any());
    // concrete sizes (1 and 2 bytes), symbolic contents: a symbolic write length turns every copy into a
    // variable-length memcpy (measured: 5.5M symex steps, out of memory)
    let (n1, n2): (usize, usize) = (1, 2);
    let (buf, mut writer): (TempFileBuffer<Dest>, TempFileBufferWriter<Dest>) = TempFileBuffer::new(true);
    let mut buf = Some(buf);
    let mut switched = false;
    let w1 = [b0, b1];
    let w2 = [b2, b3];
    consumer_switch_await(&mut buf, 0, p, &mut switched);
    let r1 = writer.write(&w1[..n1]);
    consumer_switch_await(&mut buf, 1, p, &mut switched);
    let r2 = writer.write(&w2[..n2]);
    consumer_switch_await(&mut buf, 2, p, &mut switched);
    let fl = writer.flush();
    drop(writer);
    consumer_switch_await(&mut buf, 3, p, &mut switched);
    let ok1 = match &r1 { Ok(a) => *a == n1, _ => false };
    let ok2 = match &r2 { Ok(b) => *b == n2, _ => false };
    let ok3 = fl.is_ok();
    core::mem::forget(r1); core::mem::forget(r2); core::mem::forget(fl);
    assert!(ok1, "[write_ok1] the first staged write failed or was short");
    assert!(ok2, "[write_ok2] the second staged write failed or was short");
    assert!(ok3, "[flush_ok] flush failed");
    assert!(switched, "[sched] consumer scheduled");
    // the producer is done: waiting must be enabled (no deadlock at call granularity) and return the file
    let b = buf.take().unwrap();
    assert!(b.is_real_file_ready(), "[ready] producer finished but the buffer is not reported closed");
    let dest = b.await_real_file();
    core::mem::forget(dest);
    unsafe {
        assert!(dest_len() == n1 + n2, "[len] destination does not hold exactly the bytes written");
        let mut want = [0u8; 4];
        let mut k = 0;
        want[k] = b0; k += 1;
        if n1 == 2 { want[k] = b1; k += 1; }
        want[k] = b2; k += 1;
        if n2 == 2 { want[k] = b3; k += 1; }
        let mut i = 0;
        while i < 4 {
            if i < k {
                assert!(DEST[i] == want[i], "[order] destination bytes differ from the bytes written, in order");
            }
            i += 1;
        }
    }
    let c1 = (b0 != 0) & (b2 != 0);
    kani::cover!(c1, "non-zero bytes delivered");
}

// @harness c12_unswitched_w0
// @props C12
// @tier quick
// @kind core
// @timeout 900
// @mem 16
// @flags c-ffi
// @functions TempFileBuffer::{new, len, expect_closed_write, is_real_file_ready}, TempFileBufferWriter::{write, drop}
// @bounds producer: 0 write(s) (1 byte, then 2 bytes; symbolic contents), then drop; the consumer never switches: readiness polled at a symbolic point, then len, then expect_closed_write into a destination; in-memory staging
// @stubs as c12_switch_p0
// @assumes as c12_switch_p0
// @witness cover: polled before the producer finished
#[kani::proof]
#[kani::unwind(6)]
#[kani::stub(tempfile::tempfile, crate::verif_support::fake_tempfile_err)]
#[kani::stub(alloc::vec::Vec::reserve, crate::verif_support::reserve_within_capacity)]
#[kani::stub(std::io::copy, crate::verif_support::io_copy_unreachable)]
fn c12_unswitched_w0() {
    unswitched(0);
}

// @harness c12_unswitched_w1
// @props C12
// @tier quick
// @kind core
// @timeout 900
// @mem 16
// @flags c-ffi
// @functions TempFileBuffer::{new, len, expect_closed_write, is_real_file_ready}, TempFileBufferWriter::{write, drop}
// @bounds producer: 1 write(s) (1 byte, then 2 bytes; symbolic contents), then drop; the consumer never switches: readiness polled at a symbolic point, then len, then expect_closed_write into a destination; in-memory staging
// @stubs as c12_switch_p0
// @assumes as c12_switch_p0
// @witness cover: polled before the producer finished
#[kani::proof]
#[kani::unwind(6)]
#[kani::stub(tempfile::tempfile, crate::verif_support::fake_tempfile_err)]
#[kani::stub(alloc::vec::Vec::reserve, crate::verif_support::reserve_within_capacity)]
#[kani::stub(std::io::copy, crate::verif_support::io_copy_unreachable)]
fn c12_unswitched_w1() {
    unswitched(1);
}

// @harness c12_unswitched_w2
// @props C12
// @tier quick
// @kind core
// @timeout 900
// @mem 16
// @flags c-ffi
// @functions TempFileBuffer::{new, len, expect_closed_write, is_real_file_ready}, TempFileBufferWriter::{write, drop}
// @bounds producer: 2 write(s) (1 byte, then 2 bytes; symbolic contents), then drop; the consumer never switches: readiness polled at a symbolic point, then len, then expect_closed_write into a destination; in-memory staging
// @stubs as c12_switch_p0
// @assumes as c12_switch_p0
// @witness cover: polled before the producer finished
#[kani::proof]
#[kani::unwind(6)]
#[kani::stub(tempfile::tempfile, crate::verif_support::fake_tempfile_err)]
#[kani::stub(alloc::vec::Vec::reserve, crate::verif_support::reserve_within_capacity)]
#[kani::stub(std::io::copy, crate::verif_support::io_copy_unreachable)]
fn c12_unswitched_w2() {
    unswitched(2);
}

fn unswitched(nw: u8) {
    let poll_at: u8 = kani::any();
    kani::assume(poll_at <= 2);
    let (b0, b1, b2, b3): (u8, u8, u8, u8) = (kani::any(), kani::any(), kani::any(), kani::any());
    // concrete sizes (1 and 2 bytes), symbolic contents: a symbolic write length turns every copy into a
    // variable-length memcpy (measured: 5.5M symex steps, out of memory)
    let (n1, n2): (usize, usize) = (1, 2);
    let (buf, mut writer): (TempFileBuffer<Dest>, TempFileBufferWriter<Dest>) = TempFileBuffer::new(true);
    let w1 = [b0, b1];
    let w2 = [b2, b3];
    let mut total = 0usize;
    if poll_at == 0 { assert!(!buf.is_real_file_ready(), "[poll_early] reported closed while the producer is alive"); }
    if nw >= 1 {
        let r = writer.write(&w1[..n1]);
        let ok = match &r { Ok(a) => *a == n1, _ => false };
        core::mem::forget(r);
        assert!(ok, "[write_ok] staged write 1");
        total += n1;
    }
    if poll_at == 1 { assert!(!buf.is_real_file_ready(), "[poll_mid] reported closed while the producer is alive"); }
    if nw >= 2 {
        let r = writer.write(&w2[..n2]);
        let ok = match &r { Ok(a) => *a == n2, _ => false };
        core::mem::forget(r);
        assert!(ok, "[write_ok] staged write 2");
        total += n2;
    }
    drop(writer);
    assert!(buf.is_real_file_ready(), "[poll_done] producer finished but not reported closed");
    let l = buf.len();
    let lok = match &l { Ok(x) => *x == total as u64, _ => false };
    core::mem::forget(l);
    assert!(lok, "[staged_len] reported staged length differs from the number of bytes written");
    let mut dest = Dest(1);
    let r = buf.expect_closed_write(&mut dest);
    let rok = r.is_ok();
    core::mem::forget(r);
    assert!(rok, "[copy_ok] copying the closed buffer failed");
    unsafe {
        assert!(dest_len() == total, "[len] destination does not hold exactly the bytes written");
        if nw >= 1 { assert!(DEST[0] == b0, "[order] first byte"); }
        if nw >= 2 { assert!(DEST[n1] == b2, "[order] first byte of the second write"); }
    }
    let c2 = poll_at == 1;
    kani::cover!(c2, "polled before the producer finished");
}
