// model validation: the sequence model that replaces index_list::IndexList in the bigBed harnesses
// (support.rs, `ilist`) against the REAL index_list::IndexList on symbolic operation sequences
use crate::bbi::Value;
use crate::verif_support::ilist as model;

fn same(a: Option<&Value>, b: Option<&Value>) -> bool {
    match (a, b) {
        (None, None) => true,
        (Some(x), Some(y)) => x.start == y.start && x.end == y.end && x.value.to_bits() == y.value.to_bits(),
        _ => false,
    }
}

fn step(real: &mut index_list::IndexList<Value>, m: &mut model::IndexList<Value>, op: u8) {
    let v = Value { start: kani::any(), end: kani::any(), value: 1.0 };
    match op {
        0 => { real.insert_last(v); m.insert_last(v); }
        1 => { real.insert_first(v); m.insert_first(v); }
        2 => {
            let a = real.remove_first();
            let b = m.remove_first();
            assert!(same(a.as_ref(), b.as_ref()), "[model_remove] remove_first differs");
        }
        3 => {
            // insert after the first element (the way bigtools splits the piece it is looking at)
            let ri = real.first_index();
            let mi = m.first_index();
            assert!(ri.is_some() == mi.is_some(), "[model_index] first_index validity differs");
            if ri.is_some() { real.insert_after(ri, v); m.insert_after(mi, v); }
        }
        _ => {
            // walk one step, mutate through get_mut, insert after the second element
            let ri = real.next_index(real.first_index());
            let mi = m.next_index(m.first_index());
            assert!(ri.is_some() == mi.is_some(), "[model_index] next_index validity differs");
            if ri.is_some() {
                if let Some(x) = real.get_mut(ri) { x.end = v.end; }
                if let Some(x) = m.get_mut(mi) { x.end = v.end; }
                real.insert_after(ri, v);
                m.insert_after(mi, v);
            }
        }
    }
    // observable state: length, ends, and the forward walk
    assert!(real.len() == m.len(), "[model_len] lengths differ");
    assert!(same(real.get_first(), m.get_first()), "[model_first] first elements differ");
    assert!(same(real.get_last(), m.get_last()), "[model_last] last elements differ");
    let (mut ri, mut mi) = (real.first_index(), m.first_index());
    let mut k = 0;
    while k < 4 {
        assert!(ri.is_some() == mi.is_some(), "[model_walk] walks have different lengths");
        if ri.is_some() {
            assert!(same(real.get(ri), m.get(mi)), "[model_walk] elements differ along the walk");
            ri = real.next_index(ri);
            mi = m.next_index(mi);
        }
        k += 1;
    }
}

fn run_seq(ops: [u8; 4]) {
    let mut real: index_list::IndexList<Value> = index_list::IndexList::new();
    let mut m: model::IndexList<Value> = model::IndexList::new();
    let mut i = 0;
    while i < 4 {
        step(&mut real, &mut m, ops[i]);
        i += 1;
    }
    let c1 = m.len() >= 1;
    kani::cover!(c1, "non-empty list at the end");
    core::mem::forget(real);
}

// @harness c08_indexlist_model_agrees
// @props C06 C08 C13
// @tier quick
// @kind core
// @timeout 1800
// @mem 24
// @functions index_list::IndexList::{new, insert_last, insert_first, insert_after, remove_first, first_index, next_index, get, get_mut, get_first, get_last, len} (the real crate) vs verif_support::ilist::IndexList (the model used by the bigBed harnesses)
// @bounds the operation sequences the bigBed sweeps perform on one entry (append; split the current piece = insert after it; sweep = remove first, re-insert the cut remainder first; walk and mutate), 4 operations each, with symbolic element coordinates; after every operation length, first, last and the forward walk are compared. Operation KINDS are concrete (3 sequences in one harness): with symbolic kinds the real index-linked list exceeds 24 GB, which is the reason for the model
// @assumes only the operations and the usage pattern bigtools has
// @witness cover: a non-empty list at the end
#[kani::proof]
#[kani::unwind(6)]
fn c08_indexlist_model_agrees() {
    // append, split first, walk+insert after second, sweep first
    run_seq([0, 3, 4, 2]);
    // append twice, sweep first, put the cut remainder back in front
    run_seq([0, 0, 2, 1]);
    // front insert, append, split first, sweep
    run_seq([1, 0, 3, 2]);
}
