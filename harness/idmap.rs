// model validation: the sequence model that replaces index_list::IndexList in the bigBed harnesses
// (support.rs, `ilist`) against the REAL index_list::IndexList on symbolic operation sequences
use crate::bbi::Value;
use crate::verif_support::ilist as model;

fn same(a: Option<&Value>, b: Option<&Value>) -> bool {
    match (a, b) {
        (None, None) => true,
        (Some(x), Some(y)) => x.start == y.start && x.end == y.end && x.value.to_bits() == y.value.to_bits(),
        _ => false,
    }
}

fn step(real: &mut index_list::IndexList<Value>, m: &mut model::IndexList<Value>, op: u8) {
    let v = Value { start: kani::any(), end: kani::any(), value: 1.0 };
    match op {
        0 => { real.insert_last(v); m.insert_last(v); }
        1 => { real.insert_first(v); m.insert_first(v); }
        2 => {
            let a = real.remove_first();
            let b = m.remove_first();
            assert!(same(a.as_ref(), b.as_ref()), "[model_remove] remove_first differs");
        }
        3 => {
            // insert after the first element (the way bigtools splits the piece it is looking at)
            let ri = real.first_index();
            let mi = m.first_index();
            assert!(ri.is_some() == mi.is_some(), "[model_index] first_index validity differs");
            if ri.is_some() { real.insert_after(ri, v); m.insert_after(mi, v); }
        }
        _ => {
            // walk one step, mutate through get_mut, insert after the second element
            let ri = real.next_index(real.first_index());
            let mi = m.next_index(m.first_index());
            assert!(ri.is_some() == mi.is_some(), "[model_index] next_index validity differs");
            if ri.is_some() {
                if let Some(x) = real.get_mut(ri) { x.end = v.end; }
                if let Some(x) = m.get_mut(mi) { x.end = v.end; }
                real.insert_after(ri, v);
                m.insert_after(mi, v);
            }
        }
    }
    // observable state: length, ends, and the forward walk
    assert!(real.len() == m.len(), "[model_len] lengths differ");
    assert!(same(real.get_first(), m.get_first()), "[model_first] first elements differ");
    assert!(same(real.get_last(), m.get_last()), "[model_last] last elements differ");
    let (mut ri, mut mi) = (real.first_index(), m.first_index());
    let mut k = 0;
    while k < 4 {
        assert!(ri.is_some() == mi.is_some(), "[model_walk] walks have different lengths");
        if ri.is_some() {
            assert!(same(real.get(ri), m.get(mi)), "[model_walk] elements differ along the walk");
            ri = real.next_index(ri);
            mi = m.next_index(mi);
        }
        k += 1;
    }
}

fn run_seq(ops: [u8; 4]) {
    let mut real: index_list::IndexList<Value> = index_list::IndexList::new();
    let mut m: model::IndexList<Value> = model::IndexList::new();
    let mut i = 0;
    while i < 4 {
        step(&mut real, &mut m, ops[i]);
        i += 1;
    }
    let c1 = m.len() >= 1;
    kani::cover!(c1, "non-empty list at the end");
    core::mem::forget(real);
}

// @harness c08_indexlist_model_agrees
// @props C06 C08 C13
// @tier quick
// @kind core
// @timeout 1800
// @mem 24
// @functions index_list::IndexList::{new, insert_last, insert_first, insert_after, remove_first, first_index, next_index, get, get_mut, get_first, get_last, len} (the real crate) vs verif_support::ilist::IndexList (the model used by the bigBed harnesses)
// @bounds the operation sequences the bigBed sweeps perform on one entry (append; split the current piece = insert after it; sweep = remove first, re-insert the cut remainder first; walk and mutate), 4 operations each, with symbolic element coordinates; after every operation length, first, last and the forward walk are compared. Operation KINDS are concrete (3 sequences in one harness): with symbolic kinds the real index-linked list exceeds 24 GB, which is the reason for the model
// @assumes only the operations and the usage pattern bigtools has
// @witness cover: a non-empty list at the end
#[kani::proof]
#[kani::unwind(6)]
fn c08_indexlist_model_agrees() {
    // append, split first, walk+insert after second, sweep first
    run_seq([0, 3, 4, 2]);
    // append twice, sweep first, put the cut remainder back in front
    run_seq([0, 0, 2, 1]);
    // front insert, append, split first, sweep
    run_seq([1, 0, 3, 2]);
}

// @harness c02_bytes_model_agrees
// @props C02
// @tier quick
// @kind core
// @timeout 1800
// @mem 16
// @functions bytes::BytesMut::{with_capacity, extend_from_slice, len, split_to, to_vec via Deref} and bytes::Buf::{get_u32, get_u32_le, get_u8} (the real crate) vs verif_support::bbuf::BytesMut (the model used by c02_block_entries*)
// @bounds the operation sequence get_block_entries performs on one 2-entry block (three u32 reads, look for the NUL, split_to, get_u8, twice), on a 27-byte buffer with symbolic coordinate bytes and concrete rest bytes; results and remaining length compared after every operation; both byte orders
// @assumes only the operations and the usage pattern bigtools has
// @witness cover: a non-zero coordinate read
#[kani::proof]
#[kani::unwind(30)]
fn c02_bytes_model_agrees() {
    use bytes::Buf;
    let w: [u32; 6] = [kani::any(), kani::any(), kani::any(), kani::any(), kani::any(), kani::any()];
    let mut d: Vec<u8> = Vec::with_capacity(32);
    d.extend_from_slice(&w[0].to_le_bytes()); d.extend_from_slice(&w[1].to_le_bytes()); d.extend_from_slice(&w[2].to_le_bytes());
    d.push(b'x'); d.push(0);
    d.extend_from_slice(&w[3].to_le_bytes()); d.extend_from_slice(&w[4].to_le_bytes()); d.extend_from_slice(&w[5].to_le_bytes());
    d.push(0);
    let mut real = bytes::BytesMut::with_capacity(d.len());
    real.extend_from_slice(&d);
    let mut m = crate::verif_support::bbuf::BytesMut::with_capacity(d.len());
    m.extend_from_slice(&d);
    assert!(real.len() == m.len() && m.len() == 27, "[model_len] initial length");
    // entry 1, little-endian reads
    let (a, b) = (real.get_u32_le(), m.get_u32_le());
    assert!(a == b && a == w[0], "[model_u32le] get_u32_le differs");
    let (a, b) = (real.get_u32_le(), m.get_u32_le());
    assert!(a == b && a == w[1], "[model_u32le] get_u32_le differs");
    let (a, b) = (real.get_u32_le(), m.get_u32_le());
    assert!(a == b && a == w[2], "[model_u32le] get_u32_le differs");
    assert!(real.len() == m.len() && m.len() == 15, "[model_len] length after three reads");
    assert!(real[0] == m[0] && real[1] == m[1] && m[0] == b'x' && m[1] == 0, "[model_deref] unread bytes differ");
    let (rs, ms) = (real.split_to(1), m.split_to(1));
    let (rv, mv) = (rs.to_vec(), ms.to_vec());
    assert!(rv.len() == 1 && mv.len() == 1 && rv[0] == b'x' && mv[0] == b'x', "[model_split] split_to front differs");
    let (a, b) = (real.get_u8(), m.get_u8());
    assert!(a == b && a == 0, "[model_u8] get_u8 differs");
    assert!(real.len() == m.len() && m.len() == 13, "[model_len] length after the first entry");
    // entry 2, big-endian reads
    let (a, b) = (real.get_u32(), m.get_u32());
    assert!(a == b && a == w[3].swap_bytes(), "[model_u32be] get_u32 differs");
    let (a, b) = (real.get_u32(), m.get_u32());
    assert!(a == b && a == w[4].swap_bytes(), "[model_u32be] get_u32 differs");
    let (a, b) = (real.get_u32(), m.get_u32());
    assert!(a == b && a == w[5].swap_bytes(), "[model_u32be] get_u32 differs");
    let (rs, ms) = (real.split_to(0), m.split_to(0));
    assert!(rs.len() == 0 && ms.len() == 0, "[model_split] empty split differs");
    let (a, b) = (real.get_u8(), m.get_u8());
    assert!(a == b && a == 0, "[model_u8] get_u8 differs");
    assert!(real.len() == 0 && m.len() == 0, "[model_len] both exhausted");
    let c1 = w[1] != 0;
    kani::cover!(c1, "non-zero coordinate read");
    core::mem::forget(real);
    core::mem::forget(rs);
    core::mem::forget(rv);
}

// @harness probe_bbuf_constprop
// @props X
// @tier off
// @kind stretch
// @timeout 600
// @mem 8
// @functions probe only
// @bounds probe
#[kani::proof]
#[kani::unwind(30)]
fn probe_bbuf_constprop() {
    let w: [u32; 3] = [kani::any(), kani::any(), kani::any()];
    let mut d: Vec<u8> = Vec::with_capacity(32);
    let mut k = 0;
    while k < 3 {
        let b = w[k].to_le_bytes();
        d.push(b[0]); d.push(b[1]); d.push(b[2]); d.push(b[3]);
        k += 1;
    }
    d.push(b'x'); d.push(0); d.push(7);
    let mut m = crate::verif_support::bbuf::BytesMut::with_capacity(d.len());
    m.extend_from_slice(&d);
    let a = m.get_u32_le();
    let b = m.get_u32_le();
    let c = m.get_u32_le();
    let nul = m.iter().position(|b| *b == 0);
    assert!(nul == Some(1));
    assert!(a == w[0] && b == w[1] && c == w[2]);
}

fn probe_sv_make(c: bool) -> (smallvec::SmallVec<[u64; 4]>, smallvec::SmallVec<[u32; 4]>) {
    let mut a: smallvec::SmallVec<[u64; 4]> = smallvec::smallvec![];
    if c { a.push(5); }
    a.push(7);
    (a, smallvec::smallvec![])
}
fn spin(n: u64) -> u64 {
    let mut i = 0;
    while i < n { i += 1; }
    i
}

// @harness probe_smallvec_constprop
// @props X
// @tier off
// @kind stretch
// @timeout 600
// @mem 8
// @fs 16384
// @functions probe only
// @bounds probe
#[kani::proof]
#[kani::unwind(20)]
#[kani::stub(smallvec::SmallVec::push, crate::verif_support::smallvec_push_inline)]
fn probe_smallvec_constprop() {
    let (a, _b) = probe_sv_make(true);
    let mut dq: std::collections::VecDeque<u64> = std::collections::VecDeque::with_capacity(2048);
    dq.push_front(3);
    let x = dq.pop_front().unwrap();
    let r0 = spin(x);
    for child in a.into_iter().rev() {
        dq.push_front(child);
    }
    let y = dq.pop_front().unwrap();
    let r1 = spin(y);
    assert!(r0 == 3 && r1 == 5);
    core::mem::forget(dq);
}

// @harness probe_ptr_in_heap
// @props X
// @tier off
// @kind stretch
// @timeout 600
// @mem 8
// @functions probe only
// @bounds probe
#[kani::proof]
#[kani::unwind(20)]
#[kani::stub(core::ptr::copy_nonoverlapping, crate::verif_support::copy_typed_loop)]
fn probe_ptr_in_heap() {
    let a = String::from("x");
    let b = String::from("yy");
    let (ia, ib): (u32, u32) = (3, 5);
    let mut v: Vec<(&String, &u32)> = Vec::with_capacity(4);
    v.push((&b, &ib));
    v.push((&a, &ia));
    let r0 = spin(*v[1].1 as u64);
    let r1 = spin(v[0].0.len() as u64);
    v.sort_by_key(|x| *x.1);
    let r2 = spin(*v[1].1 as u64);
    assert!(r0 == 3 && r1 == 2 && r2 == 5);
}
