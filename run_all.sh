#!/bin/bash
# development aid: run the registered check of every claimed property in turn (tier = $1, default quick)
cd /verif
T=${1:-quick}; shift
PROPS=${@:-$(python3 -c "import json;print(' '.join(c['property_id'] for c in json.load(open('MANIFEST.json'))['checks']))")}
for p in $PROPS; do
  echo "=== $p $(date +%T)"
  ./check $p $T > /tmp/run_all.$p.out 2>&1
  rc=$?
  cut -c1-300 /tmp/run_all.$p.out
  echo "rc=$rc"
done
echo "=== done $(date +%T)"
