#!/bin/bash
# usage: seed_run.sh <seed-dir-name> <PROP> [<PROP>...]
# applies /verif/seeded/<seed>/patch.diff to /repo, runs the quick check of each property, ALWAYS reverts.
# (development aid for DESIGN.md section 6.3; never run concurrently with other checks: they read /repo)
S=/verif/seeded/$1; shift
cd /repo || exit 3
if ! git diff --quiet; then echo "/repo has uncommitted changes"; exit 3; fi
git apply "$S/patch.diff" || { echo "patch does not apply"; exit 3; }
trap 'git -C /repo checkout -- .' EXIT
cd /verif
for P in "$@"; do
  out=$(VERIF_SEEDRUN=1 python3 vcheck.py $P --tier quick --no-evidence 2>&1 | cut -c1-300)
  rc=$?
  echo "--- seed $(basename $S) property $P"
  echo "$out" | grep -v "proved" | head -12
done
