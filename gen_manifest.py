#!/usr/bin/env python3
"""(re)generate MANIFEST.json from the harness registry + the per-property texts below"""
import json, os, sys
sys.path.insert(0, os.path.dirname(os.path.abspath(__file__)))
import vcheck

CLAIMS = {}   # property -> (level text, note)   filled from claims.json
HERE = os.path.dirname(os.path.abspath(__file__))
claims = json.load(open(os.path.join(HERE, "claims.json")))
reg = vcheck.parse_registry()
checks = []
for pid, c in sorted(claims["claimed"].items()):
    hs = [h for h in reg if pid in h["props"] and h["tier"] != "off"]
    if not any(h["tier"] == "quick" for h in hs):
        raise SystemExit("no quick harness for " + pid)
    checks.append({
        "property_id": pid,
        "quick_cmd": "./check %s quick" % pid,
        "thorough_cmd": "./check %s thorough" % pid,
        "evidence_file": "/verif/evidence/%s.json" % pid,
        "replay_cmd_template": "cat {path}   # a Kani concrete-playback #[test]; header of the file says how to run it natively",
        "engine": "kani-cbmc",
        "level_claimed": {
            "category": "model_checking",
            "text": c["text"],
            "design_ref": c.get("design_ref", "DESIGN.md section 3, " + pid),
        },
        "level_note": c["note"],
        "technique": c.get("technique", "bounded model checking of the compiled Rust (Kani 0.68 -> CBMC 6.11 -> CaDiCaL), symbolic inputs, per-harness bounds; counterexamples replayed natively"),
    })
m = {
    "version": 1,
    "setup_cmd": "true",
    "hooks": {
        "guard": "cfg(kani)",
        "enable": "no hook commits in /repo: each check copies /repo to a scratch directory and appends `#[cfg(kani)] mod verif_kani_<file> { include!(\"/verif/harness/<file>.rs\") }` to the scratch copies of the source files, then runs cargo kani there",
        "baseline_off_cmd": "cd /repo && cargo test --workspace --no-fail-fast --offline",
        "source_commits": [],
        "add_only": True,
    },
    "engines": [
        {"name": "kani-cbmc", "path": "/verif/vcheck.py", "serves_properties": sorted(claims["claimed"].keys()),
         "kind_free_text": "Kani 0.68 (MIR -> goto) + CBMC 6.11 + CaDiCaL; harnesses in /verif/harness, C libc model in /verif/model"},
    ],
    "checks": checks,
    "notes": claims.get("notes", ""),
    "not_applicable": [{"property_id": k, "reason": v} for k, v in sorted(claims["not_applicable"].items())],
}
json.dump(m, open(os.path.join(HERE, "MANIFEST.json"), "w"), indent=1)
print("MANIFEST.json:", len(checks), "checks,", len(m["not_applicable"]), "not applicable")
