// C model of the few libc calls std::fs::File makes in the harnesses (linked with -Z c-ffi --c-lib).
// One regular file per fd in 3..3+NFILES; a file is a byte array of length <= CAP plus a cursor.
// Semantics follow POSIX for regular files: lseek to a negative offset fails with EINVAL, seeking past
// the end is allowed, read returns min(n, len-pos) bytes (0 at/after EOF), write extends the file.
#include <stddef.h>
#include <stdint.h>

#define NFILES 2
#define CAP 16

typedef long ssize_t_;
typedef long off_t_;

struct vfile {
  unsigned char data[CAP];
  long len;
  long pos;
  int fail_next; // >0: the fail_next-th upcoming operation fails with EIO
};

struct vfile VERIF_FILES[NFILES];
int VERIF_ERRNO;

int *__errno_location(void) { return &VERIF_ERRNO; }

static struct vfile *vf(int fd) {
  int i = fd - 3;
  __CPROVER_assert(i >= 0 && i < NFILES, "[libc-model] fd in range");
  return &VERIF_FILES[i];
}

// harness-facing setup (called from Rust through extern "C")
// (all return int: a Rust `()` return does not type-check against C `void` in goto-cc)
int verif_file_set_len(int fd, long len) {
  __CPROVER_assume(len >= 0 && len <= CAP);
  vf(fd)->len = len;
  vf(fd)->pos = 0;
  return 0;
}
int verif_file_set_byte(int fd, long i, unsigned char b) { vf(fd)->data[i] = b; return 0; }
unsigned char verif_file_get_byte(int fd, long i) { return vf(fd)->data[i]; }
long verif_file_len(int fd) { return vf(fd)->len; }
long verif_file_pos(int fd) { return vf(fd)->pos; }

off_t_ lseek64(int fd, off_t_ off, int whence) {
  struct vfile *f = vf(fd);
  long base = whence == 0 ? 0 : (whence == 1 ? f->pos : f->len);
  __CPROVER_assert(whence >= 0 && whence <= 2, "[libc-model] whence");
  // no overflow in the harness ranges
  long np = base + off;
  if (np < 0) {
    VERIF_ERRNO = 22; // EINVAL
    return -1;
  }
  f->pos = np;
  return np;
}
off_t_ lseek(int fd, off_t_ off, int whence) { return lseek64(fd, off, whence); }

ssize_t_ read(int fd, void *buf, size_t n) {
  struct vfile *f = vf(fd);
  long avail = f->len - f->pos;
  if (avail < 0) avail = 0;
  long k = (long)n < avail ? (long)n : avail;
  unsigned char *out = (unsigned char *)buf;
  for (long i = 0; i < k; i++) out[i] = f->data[f->pos + i];
  f->pos += k;
  return k;
}

ssize_t_ write(int fd, const void *buf, size_t n) {
  struct vfile *f = vf(fd);
  long room = CAP - f->pos;
  if (room < 0) room = 0;
  long k = (long)n < room ? (long)n : room;
  __CPROVER_assert(k == (long)n, "[libc-model] file capacity exceeded");
  const unsigned char *in = (const unsigned char *)buf;
  for (long i = 0; i < k; i++) f->data[f->pos + i] = in[i];
  f->pos += k;
  if (f->pos > f->len) f->len = f->pos;
  return k;
}

int close(int fd) { return 0; }

// futex wake/wait issued by std's Mutex/Condvar: single-threaded harnesses never block, a wake wakes nobody
#include <stdarg.h>
// getrandom (std's HashMap RandomState): the harness fixes the hash keys to zero so that hashing of
// concrete strings stays concrete (output must not depend on the keys; that is part of the property)
static long verif_fill_zero(void *buf, unsigned long len) {
  unsigned char *b = (unsigned char *)buf;
  for (unsigned long i = 0; i < len && i < 64; i++) b[i] = 0;
  return (long)len;
}
long syscall(long number, ...) {
  if (number == 318) { // SYS_getrandom on x86_64
    va_list ap;
    va_start(ap, number);
    void *buf = va_arg(ap, void *);
    unsigned long len = va_arg(ap, unsigned long);
    va_end(ap);
    return verif_fill_zero(buf, len);
  }
  return 0; // futex wake/wait: nobody to wake, never blocks
}
