#!/usr/bin/env python3
"""Solver-based checks of bigtools properties: driver.

usage: vcheck.py <PROPERTY_ID> [--tier quick|thorough] [--only NAME[,NAME..]] [--keep] [--list]

Every run regenerates everything from /repo's working tree:
  rsync /repo -> scratch, append `#[cfg(kani)] mod verif_kani_<x> { include!(harness) }` to the scratch
  copies of the source files, run `cargo kani` per harness (CBMC + CaDiCaL decide), on a property
  failure ask Kani for the concrete counterexample and replay it natively (`cargo kani playback`),
  write /verif/evidence/<id>.json.

exit 0: every harness of the property proved within its bounds (known findings are printed)
exit 1: a counterexample was found AND reproduced natively  -> VIOLATION line
exit 2: inconclusive (timeout / out of memory / tool error / unsatisfied cover / non-reproducing cex)
"""
import sys, os, re, json, time, subprocess, shutil, signal, hashlib, argparse, threading, random
from concurrent.futures import ThreadPoolExecutor

HERE = os.path.dirname(os.path.abspath(__file__))
REPO = os.environ.get("VERIF_REPO", "/repo")
CRATE_SUB = "bigtools"
SCRATCH_BASE = os.environ.get("VERIF_SCRATCH", "/var/tmp")
HARNESS_DIR = os.path.join(HERE, "harness")
EVIDENCE_DIR = os.path.join(HERE, "evidence")
REPLAY_DIR = os.path.join(HERE, "replays")
KNOWN = os.path.join(HERE, "known_findings.txt")
NCPU = os.cpu_count() or 4
REPLAY_LOCK = threading.Lock()
KANI_FEATURES = ["--lib", "--no-default-features", "--features", "read,write"]

# harness file -> source file (relative to crate) whose scratch copy gets the module appended
INJECT = {
    "bbiread.rs": "src/bbi/bbiread.rs",
    "bbiwrite.rs": "src/bbi/bbiwrite.rs",
    "bigwigwrite.rs": "src/bbi/bigwigwrite.rs",
    "bigbedwrite.rs": "src/bbi/bigbedwrite.rs",
    "bigwigread.rs": "src/bbi/bigwigread.rs",
    "bigbedread.rs": "src/bbi/bigbedread.rs",
    "tempfilebuffer.rs": "src/utils/file/tempfilebuffer.rs",
    "merge.rs": "src/utils/merge.rs",
    "fill.rs": "src/utils/fill.rs",
    "file_view.rs": "src/utils/file/file_view.rs",
    "file.rs": "src/utils/file.rs",
    "indexer.rs": "src/bed/indexer.rs",
    "autosql.rs": "src/bed/autosql.rs",
    "misc.rs": "src/utils/misc.rs",
    "bedparser.rs": "src/bed/bedparser.rs",
    "idmap.rs": "src/utils/idmap.rs",
}


def log(*a):
    print(*a, flush=True)


# --------------------------------------------------------------------------------------------
# harness registry: parsed from `// @key value` comment blocks in /verif/harness/*.rs
# --------------------------------------------------------------------------------------------
def parse_registry():
    reg = []
    for fn in sorted(os.listdir(HARNESS_DIR)):
        if not fn.endswith(".rs") or fn not in INJECT:
            continue
        cur = None
        for line in open(os.path.join(HARNESS_DIR, fn)):
            m = re.match(r"\s*// @(\w+)\s*(.*)$", line)
            if m:
                k, v = m.group(1), m.group(2).strip()
                if k == "harness":
                    cur = {"name": v, "file": fn, "props": [], "tier": "quick", "timeout": 600,
                           "mem": 12, "rss": 0, "functions": "", "bounds": "", "stubs": "none", "assumes": "none",
                           "cut": "", "flags": "", "kind": "core", "witness": "", "sub": "", "cfg": "",
                           "replay": "playback", "fs": "1024", "modpath": "", "bodyfile": ""}
                    reg.append(cur)
                elif cur is not None:
                    if k == "props":
                        cur["props"] = v.split()
                    elif k == "unwind_is_property":
                        cur[k] = True
                    elif k in ("timeout", "mem", "rss"):
                        cur[k] = int(v)
                    elif k in cur and isinstance(cur[k], str) and cur[k] and k not in ("tier", "kind", "stubs", "assumes", "replay", "fs", "modpath", "bodyfile"):
                        cur[k] += " " + v
                    else:
                        cur[k] = v
            elif not line.strip().startswith("//"):
                cur = None if cur is not None and line.strip() else cur
    return reg


# --------------------------------------------------------------------------------------------
# scratch copy
# --------------------------------------------------------------------------------------------
class Scratch:
    def __init__(self, keep=False):
        self.dir = os.path.join(SCRATCH_BASE, "bigtools-verif.%d" % os.getpid())
        self.keep = keep
        self.dev = bool(os.environ.get("VERIF_DEV"))
        if self.dev:  # development only: persistent scratch, warm target dirs
            self.dir = os.path.join(SCRATCH_BASE, "bigtools-verif.dev-" + os.environ["VERIF_DEV"])
            self.keep = True
        self.lanes = {}
        self.lock = threading.Lock()

    def prepare(self, substitutions=None):
        if os.path.exists(self.dir) and not self.dev:
            shutil.rmtree(self.dir)
        os.makedirs(self.dir, exist_ok=True)
        for d in os.listdir(self.dir):
            if d == "src-tree" or d.startswith("variant-") or d == "logs" or d == "harness-snapshot":
                shutil.rmtree(os.path.join(self.dir, d))
        subprocess.run(["rsync", "-a", "--exclude", "target", "--exclude", ".git", "--exclude", "pybigtools",
                        "--exclude", "bench", "--exclude", "assets", REPO + "/", self.dir + "/src-tree/"], check=True)
        self.tree = os.path.join(self.dir, "src-tree")
        self.crate = os.path.join(self.tree, CRATE_SUB)
        # the workspace lists pybigtools: drop it from the scratch workspace (never built by the checks)
        ws = os.path.join(self.tree, "Cargo.toml")
        s = open(ws).read()
        s2 = re.sub(r'"pybigtools"\s*,?', "", s)
        open(ws, "w").write(s2)
        os.makedirs(os.path.join(self.tree, ".cargo"), exist_ok=True)
        with open(os.path.join(self.tree, ".cargo", "config.toml"), "w") as f:
            f.write('[net]\noffline = true\n\n[patch.crates-io]\nrustix = { path = "%s" }\n'
                    % os.path.join(HERE, "vendor", "rustix-0.37.19"))
        # the run works on a SNAPSHOT of the harness directory (edits to /verif/harness while a check is
        # running must not change what that check compiles)
        self.hdir = os.path.join(self.dir, "harness-snapshot")
        if os.path.exists(self.hdir):
            shutil.rmtree(self.hdir)
        shutil.copytree(HARNESS_DIR, self.hdir)
        # inject harness modules
        for hf, src in INJECT.items():
            hp = os.path.join(self.hdir, hf)
            sp = os.path.join(self.crate, src)
            if not os.path.exists(hp):
                continue
            if not os.path.exists(sp):
                raise RuntimeError("source file vanished: " + src)
            modname = "verif_kani_" + hf[:-3]
            with open(sp, "a") as f:
                f.write('\n#[cfg(kani)]\n#[allow(unused, dead_code, non_snake_case)]\npub(crate) mod %s {\n    include!("%s");\n}\n' % (modname, hp))
        lib = os.path.join(self.crate, "src/lib.rs")
        # crate-level feature gate needed to name `A: Allocator` in the signature of the Vec::push stub
        ls = open(lib).read()
        open(lib, "w").write("#![cfg_attr(kani, feature(allocator_api))]\n#![cfg_attr(kani, recursion_limit = \"1024\")]\n" + ls)
        with open(lib, "a") as f:
            f.write("\n#[cfg(kani)]\nextern crate alloc;\n")
            f.write('#[cfg(kani)]\n#[allow(unused, dead_code)]\npub(crate) mod verif_support {\n    include!("%s");\n}\n'
                    % os.path.join(self.hdir, "support.rs"))

    def variant(self, sub):
        """a copy of the crate sources with textual substitutions `file:::old:::new` applied (each must
        match exactly once); returns the crate dir of the variant"""
        key = hashlib.sha1(sub.encode()).hexdigest()[:10]
        with self.lock:
            vdir = os.path.join(self.dir, "variant-" + key)
            if os.path.exists(vdir):
                return os.path.join(vdir, CRATE_SUB)
            subprocess.run(["rsync", "-a", self.tree + "/", vdir + "/"], check=True)
            for one in sub.split("|||"):
                parts = [x.strip() for x in one.split(":::")]
                f, old, new = parts[0], parts[1], parts[2].replace("{HARNESS_DIR}", self.hdir)
                want = int(parts[3]) if len(parts) > 3 else 1
                p = os.path.join(vdir, CRATE_SUB, f)
                s = open(p).read()
                if s.count(old) != want:
                    raise RuntimeError("substitution %r matches %d times in %s (expected %d)" % (old, s.count(old), f, want))
                open(p, "w").write(s.replace(old, new))
            return os.path.join(vdir, CRATE_SUB)

    def cleanup(self):
        if not self.keep and os.path.exists(self.dir):
            shutil.rmtree(self.dir, ignore_errors=True)


# --------------------------------------------------------------------------------------------
# running one harness
# --------------------------------------------------------------------------------------------
def run_cmd(cmd, cwd, logpath, timeout, mem_gb, env=None):
    """run under ulimit -v and a timeout, whole process group killed on timeout"""
    e = dict(os.environ)
    e["CARGO_NET_OFFLINE"] = "true"
    e.pop("RUSTUP_TOOLCHAIN", None)
    if env:
        e.update(env)
    timer = "/usr/bin/time -f 'VERIF_MAXRSS_KB %M' " if os.path.exists("/usr/bin/time") else ""
    shcmd = "ulimit -s unlimited 2>/dev/null; ulimit -v %d; exec %s%s" % (mem_gb * 1024 * 1024, timer, " ".join("'%s'" % c.replace("'", "'\\''") for c in cmd))
    t0 = time.time()
    with open(logpath, "w") as lf:
        p = subprocess.Popen(["bash", "-c", shcmd], cwd=cwd, stdout=lf, stderr=subprocess.STDOUT, env=e,
                             start_new_session=True)
        try:
            rc = p.wait(timeout=timeout)
            to = False
        except subprocess.TimeoutExpired:
            os.killpg(p.pid, signal.SIGKILL)
            p.wait()
            rc, to = -9, True
    return rc, to, time.time() - t0


def parse_kani_log(text):
    r = {"steps": None, "status": None, "checks_total": None, "checks_failed": None, "failed": [], "covers": None,
         "covers_sat": None, "vccs": None, "vccs_remaining": None, "variables": None, "clauses": None,
         "symex_s": None, "solver_s": None, "verif_time_s": None, "stubs_applied": [], "unwind_fail": False,
         "unsat_covers": []}
    m = re.search(r"VERIFICATION:- (SUCCESSFUL|FAILED)", text)
    if m:
        r["status"] = m.group(1)
    m = re.search(r"VERIF_MAXRSS_KB (\d+)", text)
    r["max_rss_mb"] = int(m.group(1)) // 1024 if m else None
    m = re.search(r"\*\* (\d+) of (\d+) failed", text)
    if m:
        r["checks_failed"], r["checks_total"] = int(m.group(1)), int(m.group(2))
    m = re.search(r"\*\* (\d+) of (\d+) cover properties satisfied", text)
    if m:
        r["covers_sat"], r["covers"] = int(m.group(1)), int(m.group(2))
    m = re.search(r"Generated (\d+) VCC\(s\), (\d+) remaining after simplification", text)
    if m:
        r["vccs"], r["vccs_remaining"] = int(m.group(1)), int(m.group(2))
    for m in re.finditer(r"(\d+) variables, (\d+) clauses", text):
        r["variables"], r["clauses"] = int(m.group(1)), int(m.group(2))
    m = re.search(r"size of program expression: (\d+) steps", text)
    if m:
        r["steps"] = int(m.group(1))
    m = re.search(r"Runtime Symex: ([\d.e+-]+)s", text)
    if m:
        r["symex_s"] = float(m.group(1))
    tot = 0.0
    found = False
    for m in re.finditer(r"Runtime decision procedure: ([\d.e+-]+)s", text):
        tot += float(m.group(1)); found = True
    if found:
        r["solver_s"] = round(tot, 3)
    m = re.search(r"Verification Time: ([\d.e+-]+)s", text)
    if m:
        r["verif_time_s"] = float(m.group(1))
    r["stubs_applied"] = re.findall(r"- Stub: (\S+)", text)
    # per-check results; a cover! whose condition has `&&` is compiled into several cover checks with the
    # same description: the witness is satisfied when ANY instance of a description is SATISFIED
    cov = {}
    for m in re.finditer(r"Check \d+: (.+)\n\s+- Status: (\w+)\n\s+- Description: \"(.*?)\"\n(?:\s+- Location: (.*)\n)?", text):
        name, status, desc, loc = m.group(1), m.group(2), m.group(3), m.group(4) or ""
        if status == "FAILURE":
            r["failed"].append({"check": name, "desc": desc, "loc": loc.strip()})
            if "unwinding assertion" in desc:
                r["unwind_fail"] = True
        if re.search(r"\.cover\.\d+$", name):
            cov[desc] = cov.get(desc, False) or status == "SATISFIED"
    if cov:
        r["covers"] = len(cov)
        r["covers_sat"] = sum(1 for v in cov.values() if v)
        r["unsat_covers"] = [d for d, v in cov.items() if not v]
    return r


class Runner:
    def __init__(self, scratch, tier, seed):
        self.s = scratch
        self.tier = tier
        self.seed = seed
        self.logdir = os.path.join(scratch.dir, "logs")
        os.makedirs(self.logdir, exist_ok=True)
        self.lane_lock = threading.Lock()
        self.free_lanes = []
        self.nlanes = 0

    def get_lane(self):
        with self.lane_lock:
            if self.free_lanes:
                return self.free_lanes.pop()
            self.nlanes += 1
            return os.path.join(self.s.dir, "t%d" % self.nlanes)

    def put_lane(self, l):
        with self.lane_lock:
            self.free_lanes.append(l)

    def kani_cmd(self, h, lane, extra=()):
        # fully qualified name + --exact: kani's --harness is a substring filter otherwise
        modpath = INJECT[h["file"]][len("src/"):-len(".rs")].replace("/", "::")
        fq = "%s::verif_kani_%s::%s" % (modpath, h["file"][:-3], h["name"])
        if h["modpath"]:
            fq = "%s::%s" % (h["modpath"], h["name"])
        cmd = ["cargo", "kani"] + KANI_FEATURES + ["-Z", "stubbing", "--harness", fq, "--exact",
                                                   "--target-dir", lane]
        fl = h["flags"].split()
        if "c-ffi" in fl:
            fl.remove("c-ffi")
            cmd += ["-Z", "c-ffi", "--c-lib", os.path.join(HERE, "model", "verif_libc.c")]
        cmd += fl
        cmd += list(extra)
        # CBMC is field-sensitive only for arrays <= 64 elements by default: every heap object larger than
        # 64 bytes would lose constant propagation (measured: 6.5M -> 0.5M SAT variables). Must be last.
        cmd += ["-Z", "unstable-options", "--cbmc-args", "--max-field-sensitivity-array-size", h["fs"]]
        return cmd

    def run(self, h):
        lane = self.get_lane()
        try:
            return self._run(h, lane)
        finally:
            self.put_lane(lane)

    def _run(self, h, lane):
        crate = self.s.crate
        if h["sub"]:
            try:
                crate = self.s.variant(h["sub"])
            except RuntimeError as e:
                return {"harness": h["name"], "verdict": "inconclusive", "reason": "source substitution failed: %s" % e}
        env = {}
        if h["cfg"]:
            env["RUSTFLAGS"] = " ".join("--cfg " + c for c in h["cfg"].split())
        logpath = os.path.join(self.logdir, h["name"] + ".log")
        rc, to, wall = run_cmd(self.kani_cmd(h, lane), crate, logpath, h["timeout"], h["mem"], env)
        text = open(logpath, errors="replace").read()
        res = parse_kani_log(text)
        out = {"harness": h["name"], "wall_s": round(wall, 1), "rc": rc, "log": logpath, **res}
        if to:
            out["verdict"] = "inconclusive"; out["reason"] = "timeout after %ds" % h["timeout"]
            return out
        if res["status"] is None:
            why = "no verdict from kani (rc=%s)" % rc
            if "error[E" in text or "error: could not compile" in text:
                why = "scratch build failed (a harness no longer matches the source?)"
            if re.search(r"out of memory|std::bad_alloc|Status: ERROR|memory allocation .* failed", text):
                why = "out of memory / solver error"
            out["verdict"] = "inconclusive"; out["reason"] = why
            return out
        if "Status: ERROR" in text:
            out["verdict"] = "inconclusive"; out["reason"] = "CBMC reported ERROR status"
            return out
        if res["status"] == "SUCCESSFUL":
            if res["covers"] and res["covers_sat"] != res["covers"]:
                out["verdict"] = "inconclusive"
                out["reason"] = "vacuity witness not satisfied: %s" % res["unsat_covers"]
                return out
            out["verdict"] = "proved"
            return out
        # FAILED
        real = [f for f in res["failed"] if "unwinding assertion" not in f["desc"]]
        if not res["failed"]:
            out["verdict"] = "inconclusive"; out["reason"] = "FAILED without failed checks (unsat cover / undetermined)"
            if res["unsat_covers"]:
                out["reason"] = "vacuity witness not satisfied: %s" % res["unsat_covers"]
            return out
        if not real:
            # only unwinding assertions failed: either the bound is too small (harness problem) or the
            # code loops beyond any bound. A harness declares `@unwind_is_property` when termination
            # within the bound IS the asserted property.
            if h.get("unwind_is_property") or os.environ.get("VERIF_UNWIND_PROP"):
                real = res["failed"]
            else:
                out["verdict"] = "inconclusive"; out["reason"] = "unwinding bound too small (unwinding assertion failed)"
                return out
        out["failed_real"] = real
        out["verdict"] = "cex"
        # counterexample -> concrete playback
        self.replay(h, lane, crate, env, out)
        return out

    # ----------------------------------------------------------------------------------------
    def replay(self, h, lane, crate, env, out):
        with REPLAY_LOCK:
            self._replay(h, lane, crate, env, out)

    def _replay(self, h, lane, crate, env, out):
        # 1st attempt: sliced formula (cheap). Slicing may drop kani::any() calls that the failing check does
        # not depend on; the generated value list is then misaligned and the native run stops inside kani's
        # playback runtime ("det vals"). In that case regenerate WITHOUT slicing (kani's default, expensive).
        self._replay_once(h, lane, crate, env, out, sliced=True)
        res = out.get("replay", {}).get("results", {})
        if out.get("replay", {}).get("status") != "reproduced" and any(v == "playback-misaligned" for v in res.values()):
            self._replay_once(h, lane, crate, env, out, sliced=False)

    def _replay_once(self, h, lane, crate, env, out, sliced):
        name = h["name"]
        if h["replay"] == "none":
            out["replay"] = {"status": "not-replayable", "why": "harness marked replay=none"}
            return
        logpath = os.path.join(self.logdir, name + ".playback-gen.log")
        # kani turns formula slicing off for playback, which can make the formula 10x larger than the one
        # just solved (measured 2.6M -> 23M variables). We put `--slice-formula` back: values outside the
        # failing check's cone of influence may then be arbitrary, which is fine because the counterexample
        # only counts if it REPRODUCES natively below.
        cmd = self.kani_cmd(h, lane, ["-Z", "concrete-playback", "--concrete-playback=print"]) + (["--slice-formula"] if sliced else [])
        rc, to, wall = run_cmd(cmd, crate, logpath, max(1800, h["timeout"] * 2), max(40, h["mem"]) if sliced else 52, env)
        text = open(logpath, errors="replace").read()
        blocks = re.findall(r"```\s*(?:rust)?\n(.*?)```", text, re.S)
        only_unwind = all("unwinding assertion" in fc["desc"] for fc in out["failed_real"])
        if only_unwind and h["replay"] == "inputfree":
            # kani prints no playback test for unwinding assertions. The harness declares that it has no
            # symbolic input, so the replay is simply the harness run natively under a watchdog.
            blocks = ["/// synthesized: input-free harness, non-termination witness\n#[test]\nfn kani_concrete_playback_%s_inputfree() {\n    let concrete_vals: Vec<Vec<u8>> = vec![];\n    kani::concrete_playback_run(concrete_vals, %s);\n}\n" % (name, name)]
        # kani prints one test per failed check AND per satisfied cover: keep the one for a failing check
        descs = [fc["desc"].strip('"') for fc in out["failed_real"]]
        pick = [b for b in blocks if any(d and d in b for d in descs)]
        if not pick and only_unwind and h["replay"] == "inputfree":
            pick = blocks
        if not pick:
            pick = [b for b in blocks if "Check for `cover`" not in b]
        if not pick:
            out["replay"] = {"status": "no-playback-test", "why": "kani printed no concrete playback test for the failing check"}
            return
        test_src = pick[0]
        tm = re.search(r"fn (kani_concrete_playback_\w+)", test_src)
        tname = tm.group(1) if tm else "kani_concrete_playback"
        os.makedirs(REPLAY_DIR, exist_ok=True)
        rp = os.path.join(REPLAY_DIR, "%s.%s.rs" % (h["props"][0] if h["props"] else "X", name))
        modname = "verif_kani_" + h["file"][:-3]
        # native replay runs the REAL code: no kani stubs apply under `cargo kani playback`, and for
        # harnesses with a source substitution the unsubstituted scratch crate is tried first
        crates = [self.s.crate] if crate == self.s.crate else [self.s.crate, crate]
        if h["bodyfile"]:
            crates = [crate]  # the harness body lives in a module that only exists in the substituted copy
        results = {}
        for ci, rcrate in enumerate(crates):
            if h["bodyfile"]:
                src = os.path.join(self.s.hdir, h["bodyfile"])
                orig = open(src).read()
                open(src, "w").write(orig + "\n" + test_src + "\n")
            else:
                src = os.path.join(rcrate, INJECT[h["file"]])
                orig = open(src).read()
                marker = "mod %s {\n" % modname
                idx = orig.rfind(marker)
                open(src, "w").write(orig[:idx + len(marker)] + test_src + "\n" + orig[idx + len(marker):])
            tag = "real" if (ci == 0 and not h["bodyfile"]) else "substituted"
            plog = os.path.join(self.logdir, name + ".playback-%s.log" % tag)
            penv = dict(env)
            penv["RUSTFLAGS"] = (penv.get("RUSTFLAGS", "") + " --cfg verif_replay").strip()
            penv["CARGO_TARGET_DIR"] = lane + "-pb"
            cmd = ["cargo", "kani", "playback", "-Z", "concrete-playback", "-Z", "stubbing"] + KANI_FEATURES + ["--", tname, "--nocapture"]
            try:
                rc, to, wall = run_cmd(cmd, rcrate, plog, 90 if (only_unwind and h["replay"] == "inputfree") else 900, 12, penv)
            finally:
                open(src, "w").write(orig)
            ptxt = open(plog, errors="replace").read()
            out.setdefault("replay_logs", []).append(plog)
            if to:
                results[tag] = "hang(watchdog)"
            elif re.search(r"test result: FAILED|panicked at|memory allocation of", ptxt):
                # the native panic must be THE failed check (same message, or same source location in
                # the repository code), not some other panic of the harness environment
                hit = False
                for fc in out["failed_real"]:
                    d = fc["desc"].strip('"')
                    mloc = re.match(r"(\S+?):(\d+):\d+", fc["loc"].replace("../", ""))
                    if d and d in ptxt:
                        hit = True
                    elif mloc and re.search(r"panicked at [^\n]*%s:%s:" % (re.escape(os.path.basename(mloc.group(1))), mloc.group(2)), ptxt):
                        hit = True
                    elif "unwinding assertion" in fc["desc"] and re.search(r"memory allocation of \d+ bytes failed|capacity overflow", ptxt):
                        hit = True
                if not hit and "concrete_playback.rs" in ptxt and re.search(r"det vals|Not enough", ptxt):
                    results[tag] = "playback-misaligned"
                else:
                    results[tag] = "reproduced" if hit else "other-panic"
            elif re.search(r"test result: ok. 1 passed", ptxt):
                results[tag] = "passed"
            elif "error: could not compile" in ptxt or "error[E" in ptxt:
                results[tag] = "does-not-compile"
            else:
                results[tag] = "error(rc=%s)" % rc
            if results[tag].startswith("reproduced") or results[tag].startswith("hang"):
                break
        with open(rp, "w") as f:
            f.write("// counterexample for harness %s (property %s)\n" % (name, ",".join(h["props"])))
            f.write("// failed checks:\n")
            for fc in out["failed_real"]:
                f.write("//   %s | %s | %s\n" % (fc["check"], fc["desc"], fc["loc"]))
            f.write("// native replay results (real = unmodified scratch copy of /repo): %s\n" % json.dumps(results))
            f.write("// to replay: VERIF_DEV=x ./vcheck.py X --only %s --keep, paste the test below inside `mod %s` of %s in the scratch copy, then\n" % (name, modname, INJECT[h["file"]]))
            f.write("//   RUSTFLAGS='--cfg verif_replay' cargo kani playback -Z concrete-playback %s -- %s\n" % (" ".join(KANI_FEATURES), tname))
            f.write(test_src)
        ok = any(v.startswith("reproduced") or v.startswith("hang") for v in results.values())
        out["replay"] = {"status": "reproduced" if ok else "not-reproduced", "results": results, "path": rp}


# --------------------------------------------------------------------------------------------
def load_known():
    finds, fixed = [], []
    if os.path.exists(KNOWN):
        for line in open(KNOWN):
            line = line.strip()
            if line.startswith("finding:"):
                d = dict(re.findall(r"(\w+)=(\S+)", line.split("--")[0]))
                d["text"] = line.split("--", 1)[1].strip() if "--" in line else ""
                finds.append(d)
            elif line.startswith("fixed:"):
                fixed.append(line)
    return finds, fixed


def main():
    ap = argparse.ArgumentParser()
    ap.add_argument("prop")
    ap.add_argument("--tier", default=os.environ.get("VERIF_TIER", "quick"))
    ap.add_argument("--only", default="")
    ap.add_argument("--keep", action="store_true")
    ap.add_argument("--list", action="store_true")
    ap.add_argument("--jobs", type=int, default=int(os.environ.get("VERIF_JOBS", "0")))
    ap.add_argument("--no-evidence", action="store_true")
    a = ap.parse_args()
    seed = int(os.environ.get("VERIF_SEED", "0") or 0)
    tier = a.tier if a.tier in ("quick", "thorough") else "quick"
    reg = parse_registry()
    sel = [h for h in reg if a.prop in h["props"] or a.prop == "ALL"]
    if tier == "quick":
        sel = [h for h in sel if h["tier"] == "quick"]
    sel = [h for h in sel if h["tier"] != "off"]
    if a.only:
        names = a.only.split(",")
        sel = [h for h in reg if h["name"] in names]
    if a.list:
        for h in sel:
            print(h["name"], h["props"], h["tier"], h["kind"], h["timeout"], h["mem"])
        return 0
    if not sel:
        log("no harness registered for %s at tier %s" % (a.prop, tier))
        return 2
    random.Random(seed).shuffle(sel)
    # longest first within the shuffled order keeps the wall time down
    sel.sort(key=lambda h: -h["timeout"])
    t0 = time.time()
    scratch = Scratch(keep=a.keep)
    rc = 2
    try:
        scratch.prepare()
        runner = Runner(scratch, tier, seed)
        total_mem = sum(h["mem"] for h in sel)
        jobs = a.jobs or max(1, min(len(sel), NCPU // 2, 8))
        # memory guard: never schedule more than ~52 GB of declared caps at once
        mem_cv = threading.Condition()
        mem_free = [52]
        results = []

        def work(h):
            # reservation = the harness's measured peak (@rss, GB, with margin) when registered, else min(cap, 10 GB);
            # the cap (@mem) stays the ulimit -v of the run, so an under-estimate cannot turn into a spurious failure
            need = min(h["rss"] or min(h["mem"], 10), 52)
            with mem_cv:  # all-or-nothing reservation (unit-by-unit acquisition can deadlock two workers)
                while mem_free[0] < need:
                    mem_cv.wait()
                mem_free[0] -= need
            try:
                r = runner.run(h)
            except Exception as e:  # tool failure is never a pass
                r = {"harness": h["name"], "verdict": "inconclusive", "reason": "driver exception: %r" % e}
            finally:
                with mem_cv:
                    mem_free[0] += need
                    mem_cv.notify_all()
            log("  [%s] %-44s %-12s wall=%ss solver=%ss vccs=%s rss=%sMB %s" % (
                a.prop, h["name"], r["verdict"], r.get("wall_s"), r.get("solver_s"), r.get("vccs"), r.get("max_rss_mb"),
                r.get("reason", "")))
            return r

        with ThreadPoolExecutor(max_workers=jobs) as ex:
            results = list(ex.map(work, sel))
        rc = conclude(a.prop, tier, seed, sel, results, time.time() - t0, write=not a.no_evidence and not a.only)
        if a.keep:
            log("scratch kept at", scratch.dir)
    finally:
        # keep logs of non-proved harnesses for triage
        try:
            keepdir = os.path.join(HERE, "logs", a.prop)
            if os.path.isdir(os.path.join(scratch.dir, "logs")):
                shutil.rmtree(keepdir, ignore_errors=True)
                shutil.copytree(os.path.join(scratch.dir, "logs"), keepdir)
        except Exception:
            pass
        scratch.cleanup()
    return rc


def conclude(prop, tier, seed, sel, results, wall, write=True):
    finds, fixed = load_known()
    byname = {h["name"]: h for h in sel}
    violations, known_hits, inconcl = [], [], []
    for r in results:
        h = byname[r["harness"]]
        if r["verdict"] == "proved":
            continue
        if r["verdict"] == "inconclusive":
            inconcl.append(r)
            continue
        # cex
        rep = r.get("replay", {})
        unlisted = []
        for fc in r["failed_real"]:
            hit = None
            for k in finds:
                if k.get("property") == prop and k.get("harness") == r["harness"] and k.get("check", "") in (fc["desc"] + " " + fc["check"]):
                    hit = k
            if hit:
                known_hits.append((hit, fc))
            else:
                unlisted.append(fc)
        if unlisted:
            if rep.get("status") == "reproduced":
                violations.append((r, unlisted))
            else:
                r["reason"] = "counterexample did not reproduce natively (%s): harness/stub suspect" % rep
                inconcl.append(r)
    seen = set()
    for k, fc in known_hits:
        key = (k.get("harness"), k.get("check"))
        if key in seen:
            continue
        seen.add(key)
        log("KNOWN-FINDING: property=%s %s [harness=%s check=%s]" % (prop, k["text"], k.get("harness"), k.get("check")))
    for r, un in violations:
        log("VIOLATION property=%s replay=%s" % (prop, r["replay"]["path"]))
        for fc in un:
            log("    harness=%s failed: %s (%s)" % (r["harness"], fc["desc"], fc["loc"]))
    for r in inconcl:
        log("INCONCLUSIVE property=%s harness=%s: %s (log: %s)" % (prop, r["harness"], r.get("reason"), r.get("log")))
    if write:
        write_evidence(prop, tier, seed, sel, results, wall, len(violations), known_hits, inconcl)
    if violations:
        return 1
    if inconcl:
        return 2
    log("OK property=%s tier=%s harnesses=%d wall=%.0fs" % (prop, tier, len(results), wall))
    return 0


def write_evidence(prop, tier, seed, sel, results, wall, nviol, known_hits, inconcl):
    os.makedirs(EVIDENCE_DIR, exist_ok=True)
    byname = {h["name"]: h for h in sel}
    proved = [r for r in results if r["verdict"] == "proved"]
    obligations = sum((r.get("checks_total") or 0) for r in results)
    discharged = sum((r.get("checks_total") or 0) - (r.get("checks_failed") or 0) for r in results if r.get("checks_total"))
    nontrivial = [r for r in proved if (r.get("vccs") or 0) > 0 and (not r.get("covers") or r.get("covers_sat") == r.get("covers"))]
    samples = []
    for r in results:
        h = byname[r["harness"]]
        samples.append({
            "harness": r["harness"], "verdict": r["verdict"], "kind": h["kind"],
            "functions_encoded": h["functions"], "bounds": h["bounds"], "stubs": h["stubs"],
            "assumptions": h["assumes"], "outside_claim": h["cut"], "vacuity_witness": h["witness"],
            "source_substitution": h["sub"] or None,
            "checks_total": r.get("checks_total"), "checks_failed": r.get("checks_failed"),
            "covers": r.get("covers"), "covers_satisfied": r.get("covers_sat"),
            "vccs_generated": r.get("vccs"), "vccs_after_simplification": r.get("vccs_remaining"),
            "symex_steps": r.get("steps"), "sat_variables": r.get("variables"), "sat_clauses": r.get("clauses"),
            "symex_s": r.get("symex_s"), "solver_s": r.get("solver_s"), "wall_s": r.get("wall_s"),
            "max_rss_mb": r.get("max_rss_mb"), "memory_cap_gb": h["mem"],
            "stubs_applied_by_kani": r.get("stubs_applied"), "reason": r.get("reason"),
            "failed_checks": r.get("failed_real"), "replay": r.get("replay"),
        })
    assumptions = sorted(set(
        ["Kani 0.68 / CBMC 6.11 / CaDiCaL are sound for the compiled MIR; rustc MIR semantics as modelled by Kani",
         "unwinding assertions on: a too-small loop bound is reported, never silently truncated",
         "vendored rustix 0.37.19 differs from the registry copy only in two disabled nightly probes in build.rs (no rustix code is reachable from a harness)"]
        + ["stub: " + byname[r["harness"]]["stubs"] for r in results if byname[r["harness"]]["stubs"] not in ("", "none")]
        + ["assume(%s): %s" % (r["harness"], byname[r["harness"]]["assumes"]) for r in results if byname[r["harness"]]["assumes"] not in ("", "none")]
        + ["outside the claim(%s): %s" % (r["harness"], byname[r["harness"]]["cut"]) for r in results if byname[r["harness"]]["cut"]]))
    ev = {
        "property_id": prop, "tier": tier, "seed": seed, "level": "model_checking",
        "coverage": {
            "evaluations": len(results),
            "distinct_nontrivial": len(nontrivial),
            "rule": "one evaluation = one Kani proof harness (real bigtools code compiled from /repo's working tree, symbolic inputs, decided by CBMC/CaDiCaL for ALL inputs within the harness bounds). Non-trivial = verdict proved AND >0 verification conditions generated AND every kani::cover! vacuity witness satisfied.",
            # model-checking keys: for bounded model checking of code the "state space" is the unrolled symbolic
            # program: states = symbolic-execution steps (SSA program points explored by CBMC over all harnesses),
            # transitions = verification conditions generated from them; every one is decided for all inputs
            "states": max(1, sum((r.get("steps") or 0) for r in results)),
            "transitions": max(1, sum((r.get("vccs") or 0) for r in results)),
            "traces_validated_against_impl": sum(1 for r in results if r.get("replay", {}).get("status") == "reproduced"),
            "obligations": obligations, "discharged": discharged,
            "solver_seconds": round(sum((r.get("solver_s") or 0) for r in results), 2),
            "symex_seconds": round(sum((r.get("symex_s") or 0) for r in results), 2),
            "harnesses_proved": len(proved), "harnesses_inconclusive": len(inconcl),
            "known_findings_hit": sorted(set("%s/%s" % (k.get("harness"), k.get("check")) for k, _ in known_hits)),
            "exhaustive": False,
            "samples": samples,
            "explanation": "bounded model checking of the compiled code: within each harness's stated bounds the verdict covers every input; outside them nothing is claimed",
        },
        "assumptions": assumptions,
        "wall_s": round(wall, 1),
        "violations": nviol,
    }
    with open(os.path.join(EVIDENCE_DIR, prop + ".json"), "w") as f:
        json.dump(ev, f, indent=1)


if __name__ == "__main__":
    sys.exit(main())
